//! C06 — Rejected or losing-fork input leaves best-chain state untouched.
use crate::c02;
use crate::chainx::{case_json, Ev, Explorer, Invariant, Live, Outcome, TreeBuilder};
use crate::corrupt::CATALOGUE;
use crate::ev::{Report, Tier};
use crate::fp::Fp;
use crate::ledger::Tree;
use crate::uni::{self, BlockSpec, REWARD};
use crate::{Engine, Meta};
use grin_chain::types::Options;
use serde_json::{json, Value};
use std::path::Path;

pub struct C06;

pub const BEST: &[&str] = &["head", "roots", "sizes", "utxo.", "outpos", "tail", "nrd."];

/// Universe: C02's universe A shape (two forks with spends and reorgs in both directions)
/// plus, for selected valid blocks, every corruption of the catalogue.
pub fn universe(sc: &uni::Scratch, tier: Tier) -> Tree {
	universe_lifted(sc, tier, 0)
}

/// `lift` empty blocks p1..pN below m1 (12: version-5 headers throughout, as on mainnet)
pub fn universe_lifted(sc: &uni::Scratch, tier: Tier, lift: usize) -> Tree {
	let mut tb = TreeBuilder::new(sc, 13, false);
	let kc = uni::keychain(13);
	let m = 1_000_000u64;
	let mut base = None;
	for i in 1..=lift {
		base = Some(tb.add(&format!("p{}", i), base, &BlockSpec::empty(200 + i as u32)));
	}
	let m1 = tb.add("m1", base, &BlockSpec::empty(1));
	let m2 = tb.add("m2", Some(m1), &BlockSpec::empty(2));
	let m3 = tb.add("m3", Some(m2), &BlockSpec::empty(3));
	let m4 = tb.add("m4", Some(m3), &BlockSpec::empty(4));
	let xv = REWARD - m;
	let m5 = tb.add("m5", Some(m4), &BlockSpec::with(5, vec![uni::spend_coinbase(&kc, 1, REWARD, &[(100, xv)], 1)]));
	let m6 = tb.add("m6", Some(m5), &BlockSpec::with(6, vec![uni::spend_plain(&kc, &[(100, xv)], &[(101, xv - m)], None, 2)]));
	// fork from m3 that overtakes at f7, then main comes back with m7, m8
	let f4 = tb.add("f4", Some(m3), &BlockSpec::empty(54));
	let f5 = tb.add("f5", Some(f4), &BlockSpec::with(55, vec![uni::spend_coinbase(&kc, 1, REWARD, &[(102, REWARD - 2 * m)], 3)]));
	let f6 = tb.add("f6", Some(f5), &BlockSpec::empty(56));
	let f7 = tb.add("f7", Some(f6), &BlockSpec::empty(57));
	let m7 = tb.add("m7", Some(m6), &BlockSpec::empty(7));
	let m8 = tb.add("m8", Some(m7), &BlockSpec::empty(8));
	let targets: Vec<usize> = match tier {
		Tier::Quick => vec![m5, f5, f7],
		Tier::Thorough => vec![m1, m2, m5, m6, f4, f5, f7, m7, m8],
	};
	for t in targets {
		for c in CATALOGUE {
			tb.add_corrupt(t, c);
		}
	}
	// UTXO-stage failures (from C02's catalogue)
	tb.add_invalid("i:cb1-again-on-m5", Some(m5), &BlockSpec::with(81, vec![uni::spend_coinbase(&kc, 1, REWARD, &[(102, REWARD - 2 * m)], 3)]));
	tb.add_invalid("i:never-created", Some(m4), &BlockSpec::with(83, vec![uni::spend_plain(&kc, &[(999, 12345 * m)], &[(104, 12344 * m)], None, 6)]));
	tb.add_invalid("i:immature-cb3-at-5", Some(m4), &BlockSpec::with(84, vec![uni::spend_coinbase(&kc, 3, REWARD, &[(105, REWARD - m)], 7)]));
	let _ = c02::universe_a; // (universe A itself is explored by C02)
	// transactions offered to Chain::validate_tx at every state (admitted or refused, nothing may change)
	let txs = vec![
		("t:spend-cb2".to_string(), uni::spend_coinbase(&kc, 2, REWARD, &[(120, REWARD - m)], 20)),
		("t:spend-100".to_string(), uni::spend_plain(&kc, &[(100, xv)], &[(121, xv - m)], None, 21)),
		("t:never-created".to_string(), uni::spend_plain(&kc, &[(999, 12345 * m)], &[(122, 12344 * m)], None, 22)),
		("t:duplicates-output-100".to_string(), uni::spend_coinbase(&kc, 2, REWARD, &[(100, xv)], 23)),
		("t:cb2-and-missing".to_string(), uni::spend_plain(&kc, &[(100, xv), (998, 5 * m)], &[(123, xv)], None, 24)),
	];
	let mut t = tb.finish();
	t.txs = txs;
	t
}

struct Inv06 {
	inst: String,
	/// twin continuation after read-only probes too (thorough; quick checks that nothing changed, and C02 judges
	/// the unspent view after the same probes)
	ro_twin: bool,
}

fn changed_keys(a: &Fp, b: &Fp) -> Vec<String> {
	a.diff(b).into_iter().map(|l| l.split(':').next().unwrap_or("").to_string()).collect()
}

impl Invariant for Inv06 {
	fn check(&mut self, live: &Live<'_>, prefix: &[Ev], before: &Fp, after: &Fp, out: &Outcome, rep: &mut Report) {
		let t = live.tree;
		let case = || case_json(&self.inst, t, prefix);
		let ev = prefix.last().unwrap();
		if let Ev::RO(_) = ev {
			// read-only queries, failing or not: nothing at all may change
			if before != after {
				rep.violation("read-only-query-changed-state", format!("{} ({}) changed the node's state: {:?}", ev.show(t), out.err, before.diff(after).into_iter().take(4).collect::<Vec<_>>()), case());
			}
			rep.outcome(&format!("untouched:read-only:{}", out.err));
			return;
		}
		if let Ev::T(k) = ev {
			// a transaction offered to the chain (the pool's gate), admitted or refused: nothing at all may change
			let (ok, cls) = crate::c13::ref_validate_tx(t, live.model.head, &t.txs[*k].1);
			if before != after {
				rep.violation(
					format!("tx-changed-state:{}", if out.ok { "admitted" } else { "refused" }),
					format!("{} ({}) changed the node's state: {:?}", ev.show(t), if out.ok { "Ok".to_string() } else { format!("refused: {}", out.err) }, before.diff(after).into_iter().take(4).collect::<Vec<_>>()),
					case(),
				);
			}
			rep.outcome(&format!("untouched:tx:{}:{}{}", cls.split(':').next().unwrap(), if out.ok { "admitted" } else { "refused" }, if ok == out.ok { "" } else { ":model-differs" }));
			return;
		}
		let i = match ev {
			Ev::B(i) | Ev::H(i) | Ev::HS(i) => *i,
			_ => return,
		};
		let ub = &t.blocks[i];
		let stage = ub.bad.clone().unwrap_or_else(|| if t.valid(i).is_err() { "utxo".into() } else { "valid".into() });
		let stage_class = stage.split(':').next().unwrap().to_string();
		// a bad input must be refused
		if out.ok && (ub.bad.is_some() || t.valid(i).is_err()) && matches!(ev, Ev::B(_)) {
			rep.violation(format!("accepted-bad-input:{}", stage), format!("{} was accepted although it is invalid ({})", ev.show(t), stage), case());
			return;
		}
		let head_moved = out.head_after.0 != out.head_before.0;
		if !out.ok || !head_moved {
			// best-chain state untouched
			let b = before.only(BEST);
			let a = after.only(BEST);
			if a != b {
				rep.violation(
					format!("best-chain-changed:{}", if out.ok { "losing-fork".to_string() } else { stage.clone() }),
					format!("{} ({}) changed best-chain state: {:?}", ev.show(t), if out.ok { "accepted on a losing fork".to_string() } else { format!("rejected: {}", out.err) }, b.diff(&a).into_iter().take(4).collect::<Vec<_>>()),
					case(),
				);
			}
			// nothing but the allowed memories may change
			let own_hash = ub_hash8(t, i);
			for k in changed_keys(before, after) {
				// lines of this block's own hash (several universe entries may share a header hash)
				let header_memory = k == "header_head" || k.starts_with("hmmr.") || (k.starts_with("blk.") && k.ends_with(&own_hash)) || k.starts_with("orphan");
				let allowed = if out.ok {
					// valid losing-fork block: the block itself and its header may be remembered
					header_memory
				} else if ub.header_valid {
					header_memory
				} else {
					false
				};
				if !allowed {
					rep.violation(
						format!("trace-left:{}", if out.ok { "losing-fork".to_string() } else { stage.clone() }),
						format!("{} ({}) left a trace in {}", ev.show(t), if out.ok { "fork".to_string() } else { format!("rejected: {}", out.err) }, k),
						case(),
					);
					break;
				}
			}
			// a rejected block body must never be stored
			if !out.ok {
				if let Some(v) = after.lines.get(&format!("blk.{:03}.{}", i, &ub_hash8(t, i))) {
					let was = before.lines.get(&format!("blk.{:03}.{}", i, &ub_hash8(t, i))).cloned().unwrap_or_default();
					if v.contains("blk1") && !was.contains("blk1") {
						rep.violation(format!("rejected-body-stored:{}", stage), format!("{} was rejected but its body is now stored", ev.show(t)), case());
					}
				}
			}
			rep.outcome(&format!("untouched:{}:{}", if out.ok { "fork" } else { "rejected" }, stage_class));
		}
	}

	fn after_probe(&mut self, live: &mut Live<'_>, parent_dir: &Path, sc: &uni::Scratch, prefix: &[Ev], rep: &mut Report) {
		// differential continuation: the valid block the bad one was derived from must now be
		// processed exactly as by a twin that never saw the bad input
		let t = live.tree;
		if let Some(Ev::RO(_)) = prefix.last() {
			if !self.ro_twin {
				return;
			}
		}
		if let Some(Ev::T(_)) | Some(Ev::RO(_)) = prefix.last() {
			// differential continuation: up to two valid blocks that can be delivered now are processed by this
			// object (which has just judged the transaction) and by a twin that never saw it
			let d = sc.fresh("twin");
			uni::copy_dir(parent_dir, &d);
			{
				let mut twin = Live::open_model(t, &d, live.opts, live.model.clone());
				for _ in 0..2 {
					let next = (0..t.blocks.len()).find(|i| {
						t.valid(*i).is_ok() && !live.model.accepted.contains(i) && t.blocks[*i].parent.map(|p| live.model.accepted.contains(&p)).unwrap_or(true)
					});
					let i = match next {
						Some(i) => i,
						None => break,
					};
					let o1 = live.apply(&Ev::B(i));
					let o2 = twin.apply(&Ev::B(i));
					let (f1, f2) = (live.fp(), twin.fp());
					rep.evaluations += 2;
					if o1.ok != o2.ok || f1 != f2 {
						rep.violation(
							"twin-diverges:after-tx".to_string(),
							format!("after {} the valid block {} gives {} / on a twin that never saw the transaction {} ; state diff {:?}", prefix.last().unwrap().show(t), t.blocks[i].name, if o1.ok { "Ok".into() } else { o1.err.clone() }, if o2.ok { "Ok".into() } else { o2.err.clone() }, f1.diff(&f2).into_iter().take(3).collect::<Vec<_>>()),
							case_json(&self.inst, t, prefix),
						);
						break;
					}
					rep.outcome("twin:agree:after-tx");
				}
			}
			let _ = std::fs::remove_dir_all(&d);
			return;
		}
		let i = match prefix.last() {
			Some(Ev::B(i)) => *i,
			_ => return,
		};
		let orig = match t.blocks[i].variant_of {
			Some(o) => o,
			None => return,
		};
		if live.model.accepted.contains(&orig) {
			return;
		}
		let o1 = live.apply(&Ev::B(orig));
		let f1 = live.fp().only(BEST);
		let d = sc.fresh("twin");
		uni::copy_dir(parent_dir, &d);
		let (o2, f2) = {
			let mut twin = Live::open_model(t, &d, live.opts, Default::default());
			let o2 = twin.apply(&Ev::B(orig));
			(o2, twin.fp().only(BEST))
		};
		let _ = std::fs::remove_dir_all(&d);
		rep.evaluations += 2;
		if o1.ok != o2.ok || f1 != f2 {
			rep.violation(
				format!("twin-diverges:{}", t.blocks[i].bad.clone().unwrap_or_default()),
				format!("after the rejected {} the valid block {} gives {} / twin {} ; state diff {:?}", t.blocks[i].name, t.blocks[orig].name, if o1.ok { "Ok".into() } else { o1.err.clone() }, if o2.ok { "Ok".into() } else { o2.err.clone() }, f1.diff(&f2).into_iter().take(3).collect::<Vec<_>>()),
				case_json(&self.inst, t, prefix),
			);
		}
		rep.outcome("twin:agree");
	}
}

fn ub_hash8(t: &Tree, i: usize) -> String {
	use grin_core::core::hash::Hashed;
	use grin_util::ToHex;
	t.blocks[i].block.hash().to_hex()[..8].to_string()
}

fn run(tier: Tier, shard: usize, n: usize) -> Report {
	uni::init_thread();
	let mut rep = Report::new();
	let sc = uni::Scratch::new("c06");
	let scr = &sc;
	// U: header versions 1-3; U+12: version 5 throughout; N: C13's NRD universe (NRD enabled, duplicate-excess
	// kernels on two forks) with NRD transactions offered to validate_tx, whose kernels are applied to a
	// read-only extension and to the recent-kernel index of a batch that must be discarded
	for lift in [0usize, 12, 99] {
	let iname: &'static str = if lift == 0 { "U" } else if lift == 12 { "U+12" } else { "N" };
	crate::chainx::guarded(iname, &mut rep, move |rep| {
		let tree = if lift == 99 { crate::c13::universe_nrd(scr) } else { universe_lifted(scr, tier, lift) };
		let mut inv = Inv06 { inst: iname.into(), ro_twin: tier == Tier::Thorough };
		let is_lift = |i: usize| tree.blocks[i].name.starts_with('p');
		let prelude: Vec<Ev> = (0..tree.blocks.len()).filter(|i| is_lift(*i)).map(Ev::B).collect();
		let mut ex = Explorer::with_prelude(&tree, scr, Options::NONE, iname, &prelude);
		ex.live_check = 2;
		ex.shard = (shard, n);
		ex.probe_split = true;
		let evs: Vec<Ev> = (0..tree.blocks.len()).filter(|i| !is_lift(*i) && tree.valid(*i).is_ok()).map(Ev::B).collect();
		let mut probes: Vec<Ev> = (0..tree.blocks.len()).filter(|i| tree.valid(*i).is_err()).map(Ev::B).collect();
		probes.extend((0..tree.txs.len()).map(Ev::T));
		probes.extend((0..tree.blocks.len()).filter(|i| !tree.blocks[*i].name.starts_with('p')).map(Ev::RO));
		// header-first delivery and header batches ending in a bad header
		for i in 0..tree.blocks.len() {
			if let Some(b) = &tree.blocks[i].bad {
				if b.starts_with("hdr:") || b.starts_with("pow:") {
					probes.push(Ev::H(i));
					probes.push(Ev::HS(i));
				}
			}
		}
		if shard == 0 {
			rep.extra.insert("valid_blocks".into(), json!(evs.len()));
			rep.extra.insert("probes".into(), json!(probes.len()));
			rep.sample(json!({"probes": probes.iter().take(12).map(|e| e.show(&tree)).collect::<Vec<_>>()}));
		}
		ex.explore_snap(&evs, &probes, &mut inv, rep);
		let _ = std::fs::remove_dir_all(&ex.base);
	});
	}
	rep
}

impl Engine for C06 {
	fn id(&self) -> &'static str {
		"C06"
	}
	fn meta(&self, _tier: Tier) -> Meta {
		Meta {
			level: "model_checking",
			rule: "snapshot exploration of every parent-before-child delivery history of a fork universe (two forks, spends, reorgs in both directions); at every reached state every applicable entry of a closed failure-stage catalogue (PoW, six header rules, kernel signature, range proof, kernel offset, coinbase flags, three wrong roots and two wrong MMR sizes applied after the working state was modified, double spend, unknown input, immature coinbase; header-first and header-batch delivery of bad headers) is delivered as a probe, as is every valid losing-fork block: the best-chain fingerprint must be identical before/after, nothing but an itself-valid header (and the fork block) may be remembered, and the valid sibling block must then be processed exactly as by a twin that never saw the bad input.",
			assumptions: vec!["failure stages are represented by one corruption each (closed catalogue in src/corrupt.rs)".into()],
			exhaustive: true,
		}
	}
	fn parts(&self, _tier: Tier) -> Vec<(&'static str, usize)> {
		vec![("probes", 16)]
	}
	fn run_part(&self, _part: &str, tier: Tier, shard: usize, n: usize) -> Report {
		run(tier, shard, n)
	}
	fn replay(&self, case: &Value) -> Result<String, String> {
		uni::init_thread();
		let sc = uni::Scratch::new("replay");
		let lift = if case["instance"].as_str() == Some("U+12") { 12 } else { 0 };
		let tree = if case["instance"].as_str() == Some("N") { crate::c13::universe_nrd(&sc) } else { universe_lifted(&sc, Tier::Thorough, lift) };
		let mut evs: Vec<Value> = (1..=lift).map(|i| json!(format!("B(p{})", i))).collect();
		evs.extend(case["events"].as_array().cloned().unwrap_or_default());
		crate::chainx::replay_events(&tree, &json!({"events": evs}), Options::NONE, &sc)
	}
}
