//! C13 — Coinbase maturity, lock heights and relative locks hold on every fork.
use crate::chainx::{case_json, Ev, Explorer, Invariant, Live, Outcome, TreeBuilder};
use crate::ev::{Report, Tier};
use crate::fp::Fp;
use crate::ledger::{Bad, Tree, MATURITY};
use crate::uni::{self, BlockSpec, REWARD};
use crate::{Engine, Meta};
use grin_chain::types::Options;
use grin_core::core::{KernelFeatures, NRDRelativeHeight};
use grin_core::global;
use serde_json::{json, Value};

pub struct C13;

const M: u64 = 1_000_000;

/// Maturity and lock-height universe. Main chain m1..m8; the genesis coinbase is spent into two
/// outputs at m3 so that main and fork have different output counts from height 3 on (the maturity
/// cutoff is an output-MMR position read from the header `maturity` blocks back *on that fork*).
pub fn universe_mat(sc: &uni::Scratch, tier: Tier) -> Tree {
	universe_mat_lifted(sc, tier, 0)
}

/// `lift` empty blocks p1..pN below m1 (12: version-5 headers throughout); lock heights move with it
pub fn universe_mat_lifted(sc: &uni::Scratch, tier: Tier, lift: usize) -> Tree {
	let full = tier == Tier::Thorough;
	let mut tb = TreeBuilder::new(sc, 31, false);
	let kc = uni::keychain(31);
	let mut base = None;
	for i in 1..=lift {
		base = Some(tb.add(&format!("p{}", i), base, &BlockSpec::empty(400 + i as u32)));
	}
	let m1 = tb.add("m1", base, &BlockSpec::empty(1));
	let m2 = tb.add("m2", Some(m1), &BlockSpec::empty(2));
	// genesis coinbase (key path 0/1/0/0/0) matures at height 3
	let gtx = {
		use grin_core::libtx::{build, ProofBuilder};
		use grin_keychain::ExtKeychain;
		use grin_keychain::Keychain;
		let pb = ProofBuilder::new(&kc);
		let gid = ExtKeychain::derive_key_id(0, 1, 0, 0, 0);
		let _ = kc.secp();
		uni::tx(
			&kc,
			KernelFeatures::Plain { fee: (M as u32).into() },
			&[build::coinbase_input(REWARD, gid), build::output(REWARD / 2, uni::kid(200)), build::output(REWARD / 2 - M, uni::kid(201))],
			&pb,
			50,
		)
		.expect("genesis spend")
	};
	let m3 = tb.add("m3", Some(m2), &BlockSpec::with(3, vec![gtx]));
	let m4 = tb.add("m4", Some(m3), &BlockSpec::empty(4));
	// valid at the boundary: coinbase of m2 spent at height 5 (2 + 3)
	let m5 = tb.add("m5", Some(m4), &BlockSpec::with(5, vec![uni::spend_coinbase(&kc, 2, REWARD, &[(202, REWARD - M)], 51)]));
	// height-locked kernel at exactly its lock height 6, spending plain output 200
	let lock = |h: u64, id: u64, from: (u32, u64), to: u32| {
		uni::spend_plain(&kc, &[from], &[(to, from.1 - M)], Some(KernelFeatures::HeightLocked { fee: (M as u32).into(), lock_height: h + lift as u64 }), id)
	};
	let m6 = tb.add("m6", Some(m5), &BlockSpec::with(6, vec![lock(6, 52, (200, REWARD / 2), 203)]));
	let m7 = tb.add("m7", Some(m6), &BlockSpec::with(7, vec![uni::spend_coinbase(&kc, 3, REWARD + M, &[(204, REWARD - M)], 53)])); // one above (3+3=6 < 7)
	if full {
		tb.add("m8", Some(m7), &BlockSpec::empty(8));
	}
	// fork from m2 (no genesis spend: fewer outputs per height than main)
	let g3 = tb.add("g3", Some(m2), &BlockSpec::empty(63));
	// coinbase below the fork point (m1, height 1) spent on the fork at height 4 = boundary
	let g4 = tb.add("g4", Some(g3), &BlockSpec::with(64, vec![uni::spend_coinbase(&kc, 1, REWARD, &[(210, REWARD - M)], 54)]));
	let g5 = tb.add("g5", Some(g4), &BlockSpec::empty(65));
	// fork coinbase g3 (height 3) spent at height 6 = boundary on the fork
	let g6 = tb.add("g6", Some(g5), &BlockSpec::with(66, vec![uni::spend_coinbase(&kc, 63, REWARD, &[(211, REWARD - M)], 55)]));
	let g7 = tb.add("g7", Some(g6), &BlockSpec::empty(67));
	let g8 = tb.add("g8", Some(g7), &BlockSpec::empty(68));
	if full {
		tb.add("g9", Some(g8), &BlockSpec::empty(69));
	}
	// ---- one below the thresholds (reference-invalid)
	tb.add_invalid("x:cb2-at-4", Some(m3), &BlockSpec::with(90, vec![uni::spend_coinbase(&kc, 2, REWARD, &[(220, REWARD - M)], 60)]));
	tb.add_invalid("x:cb3-at-5", Some(m4), &BlockSpec::with(91, vec![uni::spend_coinbase(&kc, 3, REWARD + M, &[(221, REWARD - M)], 61)]));
	tb.add_invalid("x:cb1-at-3-on-fork", Some(m2), &BlockSpec::with(92, vec![uni::spend_coinbase(&kc, 1, REWARD, &[(222, REWARD - M)], 62)]));
	tb.add_invalid("x:g3cb-at-5-on-fork", Some(g4), &BlockSpec::with(93, vec![uni::spend_coinbase(&kc, 63, REWARD, &[(223, REWARD - M)], 63)]));
	tb.add_invalid("x:lock7-at-6", Some(m5), &BlockSpec::with(94, vec![lock(7, 64, (200, REWARD / 2), 224)]));
	tb.add_invalid("x:lock9-at-8-on-fork", Some(g7), &BlockSpec::with(95, vec![lock(9, 65, (210, REWARD - M), 225)]));
	// ---- two coinbases in one transaction at height 7 on m6: a mature one (m1: 1+3, m4: 4+3 <= 7) together with an
	// immature one (m5: 5+3, m6: 6+3 > 7). Inputs are sorted by commitment, which has nothing to do with age: the
	// four pairs must contain both orders (mature one first / last)
	{
		let (mut mature_last, mut mature_first) = (0, 0);
		let mut k = 0u32;
		for (a, av) in [(1u32, REWARD), (4, REWARD)] {
			for (i, iv) in [(5u32, REWARD + M), (6, REWARD + M)] {
				if uni::commit_of(&kc, a, av).0.to_vec() > uni::commit_of(&kc, i, iv).0.to_vec() {
					mature_last += 1;
				} else {
					mature_first += 1;
				}
				tb.add_invalid(&format!("x:cb{}+cb{}-at-7", a, i), Some(m6), &BlockSpec::with(110 + k, vec![uni::spend_coinbases(&kc, &[(a, av), (i, iv)], &[(240 + k, av + iv - M)], 80 + k as u64)]));
				k += 1;
			}
		}
		assert!(mature_last > 0 && mature_first > 0, "universe: the two-coinbase probes must contain both input orders ({} / {})", mature_last, mature_first);
		// and two mature ones together (reference-valid sibling of m7; quick only: one more valid block doubles the
		// histories of the full universes, whose thorough run then no longer finishes in 25 minutes)
		if !full {
			tb.add("v:cb1+cb4-at-7", Some(m6), &BlockSpec::with(119, vec![uni::spend_coinbases(&kc, &[(1, REWARD), (4, REWARD)], &[(249, 2 * REWARD - M)], 89)]));
		}
	}
	// ---- at / above thresholds as alternatives (reference-valid siblings)
	if full {
		tb.add("v:lock5-at-6", Some(m5), &BlockSpec::with(96, vec![lock(5, 66, (200, REWARD / 2), 226)]));
		tb.add("v:lock8-at-8-on-fork", Some(g7), &BlockSpec::with(97, vec![lock(8, 67, (210, REWARD - M), 227)]));
	}
	let _ = (m6, g6);
	tb.finish()
}

/// NRD universe (needs header version 4 = height >= 9 and the NRD flag): duplicate-excess kernels
/// r-1 / r / r+1 blocks apart on one fork, on the other fork, and across a reorg (rewind).
pub fn universe_nrd(sc: &uni::Scratch) -> Tree {
	global::set_local_nrd_enabled(true);
	let mut tb = TreeBuilder::new(sc, 32, false);
	tb.tree.nrd_enabled = true;
	let kc = uni::keychain(32);
	let mut prev = None;
	let mut idx = vec![];
	for h in 1..=9u32 {
		let mut spec = BlockSpec::empty(h);
		if h == 5 {
			// fan coinbase 1 out into ten plain outputs for the NRD transactions
			spec.txs = vec![uni::spend_coinbase(&kc, 1, REWARD, &[(300, 10 * M), (301, 10 * M), (302, 10 * M), (303, 10 * M), (304, 10 * M), (305, 10 * M), (306, 10 * M), (307, 10 * M), (308, 10 * M), (309, REWARD - 91 * M)], 70)];
		}
		if h == 6 {
			// a second fan-out (coinbase 2) for the later instances
			spec.txs = vec![uni::spend_coinbase(&kc, 2, REWARD, &[(320, 10 * M), (321, 10 * M), (322, 10 * M), (323, REWARD - 31 * M)], 71)];
		}
		let i = tb.add(&format!("n{}", h), prev, &spec);
		prev = Some(i);
		idx.push(i);
	}
	let n9 = prev.unwrap();
	let nrd = |r: u64, from: u32, to: u32| {
		// same id => same kernel excess and signature nonce: a duplicate NRD kernel
		uni::spend_plain(&kc, &[(from, 10 * M)], &[(to, 9 * M)], Some(KernelFeatures::NoRecentDuplicate { fee: (M as u32).into(), relative_height: NRDRelativeHeight::new(r).unwrap() }), 7000 + r)
	};
	// first instances at height 10: relative heights 2, 3 and 1 (three different excesses)
	let n10 = tb.add("n10", Some(n9), &BlockSpec::with(10, vec![nrd(2, 300, 310), nrd(3, 303, 313), nrd(1, 305, 315)]));
	// r = 1: the very next block may repeat the kernel
	let n11 = tb.add("n11", Some(n10), &BlockSpec::with(11, vec![nrd(1, 306, 316)]));
	// second instance of r = 2 at height 12 = 10 + r: valid; at height 11: one below
	let n12 = tb.add("n12", Some(n11), &BlockSpec::with(12, vec![nrd(2, 301, 311)]));
	tb.add_invalid("x:nrd2-dup-at-11", Some(n10), &BlockSpec::with(190, vec![nrd(2, 301, 311)]));
	// r = 3: two blocks after the first instance is one below, three blocks after is at the threshold
	tb.add_invalid("x:nrd3-dup-at-12", Some(n11), &BlockSpec::with(193, vec![nrd(3, 304, 314)]));
	// third instance of r = 2 at 13 (one block after the second): too recent again
	tb.add_invalid("x:nrd2-dup-at-13", Some(n12), &BlockSpec::with(191, vec![nrd(2, 302, 312)]));
	let n13 = tb.add("n13", Some(n12), &BlockSpec::with(13, vec![nrd(3, 304, 314)]));
	let n14 = tb.add("n14", Some(n13), &BlockSpec::with(14, vec![nrd(2, 302, 312)]));
	// a fourth instance of the r = 2 excess (the index keeps a linked list per excess: head, middles, tail), so
	// that a block on n12 - which rewinds the two newest instances at once - is judged against the right one
	let n15 = tb.add("n15", Some(n14), &BlockSpec::empty(15));
	let _n16 = tb.add("n16", Some(n15), &BlockSpec::with(16, vec![nrd(2, 320, 330)]));
	// other fork from n9: the r = 2 duplicate one block after the fork point is fine there (no instance on
	// this fork); r = 3 and r = 1 have their first instance at the same height as on the main chain
	let h10 = tb.add("h10", Some(n9), &BlockSpec::with(110, vec![nrd(3, 303, 313), nrd(1, 305, 315)]));
	let h11 = tb.add("h11", Some(h10), &BlockSpec::with(111, vec![nrd(2, 301, 311), nrd(1, 306, 316)]));
	tb.add_invalid("x:nrd2-dup-at-12-on-fork", Some(h11), &BlockSpec::with(192, vec![nrd(2, 302, 312)]));
	tb.add_invalid("x:nrd3-dup-at-12-on-fork", Some(h11), &BlockSpec::with(194, vec![nrd(3, 304, 314)]));
	let h12 = tb.add("h12", Some(h11), &BlockSpec::empty(112));
	let h13 = tb.add("h13", Some(h12), &BlockSpec::with(113, vec![nrd(2, 302, 312), nrd(3, 304, 314)]));
	let h14 = tb.add("h14", Some(h13), &BlockSpec::empty(114));
	let _h15 = tb.add("h15", Some(h14), &BlockSpec::empty(115));
	// transactions offered to Chain::validate_tx (the pool's gate) at every state: one more instance of each
	// excess, spending outputs no block spends; and one whose input never existed
	let txs = vec![
		("t:nrd2".to_string(), nrd(2, 307, 317)),
		("t:nrd3".to_string(), nrd(3, 308, 318)),
		("t:nrd1".to_string(), uni::spend_plain(&kc, &[(309, REWARD - 91 * M)], &[(319, REWARD - 92 * M)], Some(KernelFeatures::NoRecentDuplicate { fee: (M as u32).into(), relative_height: NRDRelativeHeight::new(1).unwrap() }), 7001)),
		("t:nrd2-unknown-input".to_string(), nrd(2, 999, 327)),
	];
	let mut t = tb.finish();
	t.txs = txs;
	t
}

/// Reference verdict for Chain::validate_tx at the reference head: every input unspent there, no output
/// duplicating an unspent commitment, and for every NRD kernel the last instance of its excess on that
/// chain at least `relative_height` blocks below the NEXT block. Returns (admit?, class for statistics).
pub fn ref_validate_tx(tree: &Tree, head: Option<usize>, tx: &grin_core::core::Transaction) -> (bool, String) {
	use crate::ledger::cbytes;
	let s = tree.state_at(head).expect("reference state of the head");
	let next = tree.height(head) + 1;
	for c in crate::ledger::InputCommits::into_iter_commits(tx.inputs()) {
		if !s.utxo.contains_key(&cbytes(&c)) {
			return (false, "unknown-input".into());
		}
	}
	for o in tx.outputs() {
		if s.utxo.contains_key(&cbytes(&o.commitment())) {
			return (false, "duplicate-output".into());
		}
	}
	let mut cls = "plain".to_string();
	let mut ok = true;
	for k in tx.kernels() {
		if let KernelFeatures::NoRecentDuplicate { relative_height, .. } = k.features {
			if tree.nrd_enabled {
				let rh: u64 = relative_height.into();
				match s.nrd.get(&cbytes(&k.excess)).and_then(|v| v.last().cloned()) {
					None => cls = format!("nrd{}:no-earlier-instance", rh),
					Some(last) => {
						let d = (next - last) as i64 - rh as i64;
						cls = format!("nrd{}:threshold{:+}", rh, d.clamp(-3, 3));
						if next - last < rh {
							ok = false;
						}
					}
				}
			}
		}
	}
	(ok, cls)
}

struct Inv13 {
	inst: String,
}

impl Invariant for Inv13 {
	fn check(&mut self, live: &Live<'_>, prefix: &[Ev], _before: &Fp, _after: &Fp, out: &Outcome, rep: &mut Report) {
		let t = live.tree;
		if let Some(Ev::B(i)) = prefix.last() {
			let why = match t.valid(*i) {
				Ok(_) => "valid".to_string(),
				Err((_, b)) => format!("{:?}", b),
			};
			if let Some(ok) = out.expect.ok {
				if ok != out.ok {
					let name = t.blocks[*i].name.clone();
					rep.violation(
						if ok { format!("rule:valid-block-rejected:{}", name) } else { format!("rule:invalid-block-accepted:{}", name) },
						format!("{} returned {} but the rule model says {} ({}; model: {})", prefix.last().unwrap().show(t), if out.ok { "Ok".to_string() } else { out.err.clone() }, if ok { "accept" } else { "reject" }, why, out.expect.why),
						case_json(&self.inst, t, prefix),
					);
				}
			}
			rep.outcome(&format!("rule:{}:{}", why, if out.ok { "accepted" } else { "rejected" }));
		}
		if let Some(Ev::T(i)) = prefix.last() {
			let (name, tx) = &t.txs[*i];
			let (ok, cls) = ref_validate_tx(t, live.model.head, tx);
			if ok != out.ok {
				rep.violation(
					if ok { format!("rule:tx-refused-at-or-above-threshold:{}", cls) } else { format!("rule:tx-admitted-below-threshold:{}", cls) },
					format!("Chain::validate_tx({}) returned {} with the head at height {} but the rule model says {} ({})", name, if out.ok { "Ok".to_string() } else { out.err.clone() }, t.height(live.model.head), if ok { "admit" } else { "refuse" }, cls),
					case_json(&self.inst, t, prefix),
				);
			}
			rep.outcome(&format!("tx:{}:{}", cls, if out.ok { "admitted" } else { "refused" }));
		}
	}
}

fn run(which: &str, tier: Tier, shard: usize, n: usize) -> Report {
	uni::init_thread();
	let mut rep = Report::new();
	let sc = uni::Scratch::new("c13");
	let scr = &sc;
	// (lift, headers of every fork delivered before any body)
	let (which, lifts): (&str, Vec<(usize, bool)>) = if which == "maturity-locks-v5" {
		("maturity-locks", vec![(12, false)])
	} else if which == "maturity-locks-v5-hdr" {
		("maturity-locks", vec![(12, true)])
	} else {
		(which, vec![(0, false)])
	};
	for (lift, hdr) in lifts {
	let w = if lift == 0 { which.to_string() } else { format!("{}+{}{}", which, lift, if hdr { "+hdr" } else { "" }) };
	crate::chainx::guarded(&w.clone(), &mut rep, move |rep| {
		let tree = if w.starts_with("maturity-locks") { universe_mat_lifted(scr, tier, lift) } else { universe_nrd(scr) };
		let mut inv = Inv13 { inst: w.clone() };
		let is_lift = |i: usize| tree.blocks[i].name.starts_with('p');
		let mut prelude: Vec<Ev> = (0..tree.blocks.len()).filter(|i| is_lift(*i)).map(Ev::B).collect();
		if hdr {
			for i in 0..tree.blocks.len() {
				let valid = |k: usize| !is_lift(k) && tree.valid(k).is_ok();
				if valid(i) && !(0..tree.blocks.len()).any(|c| valid(c) && tree.blocks[c].parent == Some(i)) {
					prelude.push(Ev::HS(i));
				}
			}
		}
		let mut ex = Explorer::with_prelude(&tree, scr, Options::NONE, &w, &prelude);
		ex.live_check = tier.pick(1, 2);
		ex.shard = (shard, n);
		let evs: Vec<Ev> = (0..tree.blocks.len()).filter(|i| !is_lift(*i) && tree.valid(*i).is_ok()).map(Ev::B).collect();
		let mut probes: Vec<Ev> = (0..tree.blocks.len()).filter(|i| tree.valid(*i).is_err()).map(Ev::B).collect();
		probes.extend((0..tree.txs.len()).map(Ev::T));
		if shard == 0 {
			let kinds: Vec<String> = (0..tree.blocks.len()).filter_map(|i| tree.valid(i).err().map(|(_, b)| format!("{}:{:?}", tree.blocks[i].name, b))).collect();
			rep.sample(json!({"universe": w, "valid_blocks": evs.len(), "threshold_violations": kinds}));
			// vacuity guard: the reference must classify the one-below blocks by the intended rule
			for k in &kinds {
				let ok = k.contains("Immature") || k.contains("LockHeight") || k.contains("NrdTooRecent");
				if !ok {
					rep.violation("universe:misclassified", format!("reference classifies {} unexpectedly", k), json!({"universe": w}));
				}
			}
		}
		ex.explore_snap(&evs, &probes, &mut inv, rep);
		let _ = std::fs::remove_dir_all(&ex.base);
	});
	}
	let _ = (Bad::Immature, MATURITY);
	rep
}

struct NoStatus;
impl grin_chain::types::TxHashsetWriteStatus for NoStatus {
	fn on_setup(&self, _: Option<u64>, _: Option<u64>, _: Option<u64>, _: Option<u64>) {}
	fn on_validation_kernels(&self, _: u64, _: u64) {}
	fn on_validation_rproofs(&self, _: u64, _: u64) {}
	fn on_save(&self) {}
	fn on_done(&self) {}
}

/// A node that did not process the early blocks itself: it synced the headers, received the state at the archive
/// header (height 10 of a 32-block chain) as a txhashset archive and went on from there. At every head height
/// 10..13 every coinbase of the last four blocks is spent by a candidate next block (one below / at / above
/// creation height + maturity) and by a transaction offered to the pool-facing maturity check; the verdicts must be
/// the rule model's - the same as on a node that processed every block from genesis.
fn state_sync(_tier: Tier) -> Report {
	uni::init_thread();
	let mut rep = Report::new();
	let sc = uni::Scratch::new("c13s");
	let scr = &sc;
	crate::chainx::guarded("state-sync", &mut rep, move |rep| {
		let mut tb = TreeBuilder::new(scr, 33, false);
		let kc = uni::keychain(33);
		let mut prev = None;
		let mut main = vec![];
		for h in 1..=32u32 {
			prev = Some(tb.add(&format!("m{}", h), prev, &BlockSpec::empty(h)));
			main.push(prev.unwrap());
		}
		// candidate blocks: height h on m(h-1), spending the coinbase created at height c
		let mut cands: Vec<(usize, u32, u32, grin_core::core::Transaction)> = vec![];
		let mut id = 100u64;
		for h in 11..=14u32 {
			for c in (h - 4)..h {
				id += 1;
				let tx = uni::spend_coinbase(&kc, c, REWARD, &[(5000 + h * 10 + c, REWARD - M)], id);
				let spec = BlockSpec::with(600 + h * 10 + c, vec![tx.clone()]);
				let name = format!("s:cb{}-at-{}", c, h);
				let parent = Some(main[h as usize - 2]);
				let i = if h >= c + MATURITY as u32 { tb.add(&name, parent, &spec) } else { tb.add_invalid(&name, parent, &spec) };
				cands.push((i, h, c, tx));
			}
		}
		let archive = tb.chain.txhashset_archive_header().expect("archive header");
		assert_eq!(archive.height, 10, "archive header of a 32-block chain");
		let zip_bytes = {
			use std::io::Read;
			let (_, _, mut f) = tb.chain.txhashset_read(archive.hash()).expect("txhashset_read");
			let mut v = vec![];
			f.read_to_end(&mut v).expect("read zip");
			v
		};
		let headers: Vec<grin_core::core::BlockHeader> = main.iter().map(|i| tb.tree.blocks[*i].block.header.clone()).collect();
		let tree = tb.tree.clone();
		// the state-synced node at the archive header, and the node that processed everything
		let synced0 = scr.fresh("synced");
		{
			let c = uni::open_chain(&synced0, &tree.gen);
			let hh = c.header_head().expect("header_head");
			c.sync_block_headers(&headers, hh, Options::NONE).expect("sync headers");
			let zp = scr.fresh("zip");
			std::fs::write(&zp, &zip_bytes).expect("write zip");
			let f = std::fs::File::open(&zp).expect("open zip");
			match c.txhashset_write(archive.hash(), f, &NoStatus) {
				Ok(false) => {}
				other => panic!("builder: txhashset_write of the honest archive = {:?}", other.map_err(|e| format!("{:?}", e))),
			}
			let _ = std::fs::remove_file(&zp);
			assert_eq!(c.head().expect("head").height, 10);
		}
		let full0 = scr.fresh("full");
		{
			let c = uni::open_chain(&full0, &tree.gen);
			for i in main.iter().take(10) {
				c.process_block(tree.blocks[*i].block.clone(), Options::NONE).expect("full node");
			}
		}
		use grin_core::core::hash::Hashed;
		for (kind, base) in [("state-synced", &synced0), ("from-genesis", &full0)] {
			let cur = scr.fresh("cur");
			uni::copy_dir(base, &cur);
			for head in 10..=13u32 {
				if head > 10 {
					let c = uni::open_chain(&cur, &tree.gen);
					c.process_block(tree.blocks[main[head as usize - 1]].block.clone(), Options::NONE).unwrap_or_else(|e| panic!("builder: {} node refused main block {}: {:?}", kind, head, e));
				}
				for (i, h, c, tx) in cands.iter().filter(|x| x.1 == head + 1) {
					let d = scr.fresh("p");
					uni::copy_dir(&cur, &d);
					let chain = uni::open_chain(&d, &tree.gen);
					let want = tree.valid(*i).is_ok();
					let delta = *h as i64 - (*c as i64 + MATURITY as i64);
					// the pool-facing check: is a transaction spending this coinbase fit for the NEXT block?
					let pool = chain.verify_coinbase_maturity(&tx.inputs());
					let got = chain.process_block(tree.blocks[*i].block.clone(), Options::NONE);
					rep.evaluations += 2;
					rep.transitions += 1;
					rep.distinct += 1;
					rep.outcome(&format!("{}:threshold{:+}:block-{}:pool-{}", kind, delta, if got.is_ok() { "accepted" } else { "refused" }, if pool.is_ok() { "admits" } else { "refuses" }));
					let case = json!({"part": "state-sync", "node": kind, "head": head, "candidate": tree.blocks[*i].name});
					if got.is_ok() != want {
						rep.violation(
							if want { format!("state-sync:{}:valid-block-rejected", kind) } else { format!("state-sync:{}:immature-coinbase-spend-accepted", kind) },
							format!("{} node with head {}: process_block({}) = {} but the rule model says {} (coinbase of height {} + maturity {} vs block height {})", kind, head, tree.blocks[*i].name, match &got { Ok(_) => "Ok".to_string(), Err(e) => format!("{:?}", e) }, if want { "accept" } else { "reject" }, c, MATURITY, h),
							case.clone(),
						);
					}
					if pool.is_ok() != want {
						rep.violation(
							if want { format!("state-sync:{}:pool-check-refuses-mature", kind) } else { format!("state-sync:{}:pool-check-admits-immature", kind) },
							format!("{} node with head {}: verify_coinbase_maturity(spend of the coinbase of height {}) = {:?} but for the next block {} the rule model says {}", kind, head, c, pool.as_ref().map_err(|e| format!("{:?}", e)), h, if want { "mature" } else { "immature" }),
							case,
						);
					}
					drop(chain);
					let _ = std::fs::remove_dir_all(&d);
				}
			}
			let _ = std::fs::remove_dir_all(&cur);
		}
		rep.states += 8;
		rep.sample(json!({"part": "state-sync", "archive_height": archive.height, "archive_hash": format!("{}", archive.hash()), "candidates": cands.iter().map(|c| tree.blocks[c.0].name.clone()).collect::<Vec<_>>()}));
	});
	rep
}

impl Engine for C13 {
	fn id(&self) -> &'static str {
		"C13"
	}
	fn meta(&self, _tier: Tier) -> Meta {
		Meta {
			level: "model_checking",
			rule: "snapshot exploration of every parent-before-child delivery history (both reorg directions, so every rule is evaluated in process_block and again inside rewind_and_apply_fork) of two universes: (1) coinbase spends one below / at / above creation height + maturity on the same fork, on the other fork and with the coinbase below the fork point, forks with different output counts per height, height-locked kernels one below / at / above their lock height on both forks; (2) with NRD enabled (header version 4+), duplicate-excess NRD kernels r-1 / r / r+1 blocks apart on one fork, the duplicate on the other fork where no first instance exists, and after rewinds. Blocks one below a threshold are probes at every state where their parent is accepted. Oracle: process_block accepts iff the rule model over the fork tree (creation height on that fork, lock height, last same-excess NRD height on that fork) accepts. (pool) every state (all interleavings of next main body / next fork body / next main header / next fork header) of a two-fork universe with different output counts per height; at each state every coinbase spend and every height-locked spend is offered to a fresh TransactionPool and add_to_pool must answer exactly as the rule model for the NEXT block on the body head.",
			assumptions: vec![
				"AutomatedTesting: maturity 3, header version 4 from height 9".into(),
				"the pool admission clauses are decided by part `pool` (C14's pool explorer on the two-fork universe with headers ahead of / beside the bodies)".into(),
			],
			exhaustive: true,
		}
	}
	fn parts(&self, _tier: Tier) -> Vec<(&'static str, usize)> {
		vec![("maturity-locks", 8), ("maturity-locks-v5", 8), ("maturity-locks-v5-hdr", 8), ("nrd", 8), ("pool", 1), ("state-sync", 1)]
	}
	fn run_part(&self, part: &str, tier: Tier, shard: usize, n: usize) -> Report {
		if part == "pool" {
			// the pool-admission clauses: C14's engine, part c13-pool (its worker processes are
			// children of this one)
			return crate::c14::run_part("c13-pool", tier);
		}
		if part == "state-sync" {
			return state_sync(tier);
		}
		run(part, tier, shard, n)
	}
	fn replay(&self, case: &Value) -> Result<String, String> {
		if case.get("part").and_then(|p| p.as_str()) == Some("c13-pool") {
			return crate::Engine::replay(&crate::c14::C14, case);
		}
		if case.get("part").and_then(|p| p.as_str()) == Some("state-sync") {
			let r = state_sync(Tier::Quick);
			return match r.violations.iter().find(|v| &v.case == case).or(r.violations.first()) {
				Some(v) => Err(format!("{}: {}", v.key, v.what)),
				None => Ok(format!("state-sync part holds: {:?}", r.outcomes)),
			};
		}
		uni::init_thread();
		let sc = uni::Scratch::new("replay");
		let inst = case["instance"].as_str().unwrap_or("");
		let hdr = inst.ends_with("+hdr");
		let lift = if inst.contains("+12") { 12 } else { 0 };
		let tree = if inst.starts_with("maturity-locks") { universe_mat_lifted(&sc, Tier::Thorough, lift) } else { universe_nrd(&sc) };
		let mut evs: Vec<Value> = (1..=lift).map(|i| json!(format!("B(p{})", i))).collect();
		if hdr {
			let is_lift = |i: usize| tree.blocks[i].name.starts_with('p');
			for i in 0..tree.blocks.len() {
				let valid = |k: usize| !is_lift(k) && tree.valid(k).is_ok();
				if valid(i) && !(0..tree.blocks.len()).any(|c| valid(c) && tree.blocks[c].parent == Some(i)) {
					evs.push(json!(Ev::HS(i).show(&tree)));
				}
			}
		}
		evs.extend(case["events"].as_array().cloned().unwrap_or_default());
		crate::chainx::replay_events(&tree, &json!({"events": evs}), Options::NONE, &sc)
	}
}
