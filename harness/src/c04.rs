//! C04 — Only headers obeying height, time, version, difficulty and PoW rules pass.
//!
//! Part `headers` (C04a): a real-PoW AutomatedTesting chain of 16 blocks; every height x every
//! operator of a closed mutation catalogue x {raw, re-mined} x every entry point
//! (`process_block_header`, `sync_block_headers` as the last of a batch of every length,
//! `process_block`, `UntrustedBlockHeader::read`), judged by a header-rule function written here
//! from the property statement (own serialisation, blake2b, siphash, cycle check, MMR, retarget).
//! Parts `retarget` / `retarget-short` (C04b): `consensus::next_difficulty` on every chain type
//! and era against a u128 re-implementation, over all windows with a bounded number of deviations
//! from the regular baseline and all short (pre-genesis padded) windows.
use crate::ev::{hex, Report, Tier};
use crate::par::mine;
use crate::refmmr::{self, Forest};
use crate::uni;
use crate::{Engine, Meta};
use blake2_rfc::blake2b::blake2b;
use chrono::{DateTime, Duration, Utc};
use grin_chain::store::DifficultyIter;
use grin_chain::types::Options;
use grin_chain::Chain;
use grin_core::consensus::{self, HeaderDifficultyInfo};
use grin_core::core::hash::{Hash, Hashed};
use grin_core::core::pmmr::{ReadablePMMR, ReadonlyPMMR};
use grin_core::core::{Block, BlockHeader, HeaderVersion, UntrustedBlockHeader};
use grin_core::global::{self, ChainTypes};
use grin_core::pow::{Difficulty, Proof};
use grin_core::ser::{self, DeserializationMode, ProtocolVersion};
use grin_keychain::ExtKeychain;
use serde_json::{json, Value};
use std::collections::HashMap;
use std::panic::{catch_unwind, AssertUnwindSafe};
use std::path::PathBuf;

pub struct C04;

// ======================================================================================
// Reference constants, written from the documented consensus parameters
// ======================================================================================

const R_BLOCK_TIME: u128 = 60;
const R_WINDOW: usize = 60; // DMA window (one hour of blocks); 61 entries are needed
const R_WINDOW_SPAN: u128 = 3600;
const R_CLAMP: u128 = 2;
const R_DMA_DAMP: u128 = 3;
const R_AR_DAMP: u128 = 13;
const R_MIN_DMA: u128 = 3;
const R_MIN_AR: u128 = 13;
const R_HALF_LIFE: u128 = 4 * 3600;
const R_YEAR: u64 = 52 * 7 * 24 * 60;
const R_FTL: i64 = 300;
const R_SECONDARY_EDGE_BITS: u8 = 29;

#[derive(Clone, Copy, PartialEq, Eq, Debug)]
enum Net {
	Auto,
	User,
	Test,
	Main,
}

impl Net {
	fn all() -> [Net; 4] {
		[Net::Auto, Net::User, Net::Test, Net::Main]
	}
	fn name(&self) -> &'static str {
		match self {
			Net::Auto => "automated",
			Net::User => "usertesting",
			Net::Test => "testnet",
			Net::Main => "mainnet",
		}
	}
	fn from_name(s: &str) -> Net {
		*Net::all().iter().find(|n| n.name() == s).expect("net name")
	}
	fn chain_type(&self) -> ChainTypes {
		match self {
			Net::Auto => ChainTypes::AutomatedTesting,
			Net::User => ChainTypes::UserTesting,
			Net::Test => ChainTypes::Testnet,
			Net::Main => ChainTypes::Mainnet,
		}
	}
	/// header version scheduled for a height (the documented hard-fork schedule)
	fn version(&self, h: u64) -> u16 {
		match self {
			Net::Main => (1 + h / (R_YEAR / 2)).min(5) as u16,
			Net::Auto | Net::User => (1 + h / 3).min(5) as u16,
			Net::Test => {
				if h < 185_040 {
					1
				} else if h < 298_080 {
					2
				} else if h < 552_960 {
					3
				} else if h < 642_240 {
					4
				} else {
					5
				}
			}
		}
	}
	fn min_edge_bits(&self) -> u8 {
		match self {
			Net::Auto => 10,
			Net::User => 15,
			_ => 31,
		}
	}
	fn base_edge_bits(&self) -> u8 {
		match self {
			Net::Auto => 10,
			Net::User => 15,
			_ => 24,
		}
	}
	/// graph weight at launch: 2^(edge_bits - base + 1) * edge_bits
	fn weight0(&self, edge_bits: u8) -> u128 {
		(2u128 << (edge_bits - self.base_edge_bits())) * edge_bits as u128
	}
	/// scaling of the simulated pre-genesis blocks (= unit difficulty of the network)
	fn initial_scaling(&self) -> u128 {
		match self {
			Net::Auto => self.weight0(10),
			Net::User => self.weight0(15),
			_ => self.weight0(29),
		}
	}
	fn min_wtema(&self) -> u128 {
		match self {
			Net::Auto => self.weight0(10),
			Net::User => self.weight0(15),
			Net::Test => self.weight0(29),
			Net::Main => self.weight0(32),
		}
	}
}

/// target share of secondary blocks in percent: 90, losing one point every 2y/90
fn ref_ratio(height: u64) -> u128 {
	90u128.saturating_sub((height / (2 * R_YEAR / 90)) as u128)
}

/// one entry of a difficulty window
#[derive(Clone, Copy, Debug, PartialEq, Eq)]
struct Wd {
	ts: u64,
	diff: u64,
	scal: u32,
	sec: bool,
}

#[derive(Clone, Copy, Debug, Default)]
struct RefNext {
	diff: u128,
	scal: u128,
	/// bounds implied by damping and clamping alone
	lo: u128,
	hi: u128,
	scal_lo: u128,
	scal_hi: u128,
	min: u128,
	wtema: bool,
	/// classification helpers
	ts_clamped: bool,
}

/// The retarget function from its definition, u128 arithmetic. `w` is newest first; at least
/// one entry. Fewer than 61 entries: simulated pre-genesis blocks continue the series
/// backwards with the newest block's time step and difficulty, the network's unit scaling and
/// the secondary flag set.
fn ref_next(net: Net, height: u64, w: &[Wd]) -> RefNext {
	let mut o = RefNext::default();
	if net.version(height) >= 5 {
		// WTEMA: next = last * T / (T - 60 + last block time)
		let (last, prev) = (w[0], w.get(1).copied().unwrap_or(w[0]));
		let dt = (last.ts as i128 - prev.ts as i128).max(0) as u128;
		let next = last.diff as u128 * R_HALF_LIFE / (R_HALF_LIFE - R_BLOCK_TIME + dt);
		o.min = net.min_wtema();
		o.diff = next.max(o.min);
		o.scal = 0;
		o.wtema = true;
		o.lo = o.min;
		// a block takes at least one second
		o.hi = (last.diff as u128 * R_HALF_LIFE / (R_HALF_LIFE - R_BLOCK_TIME + 1)).max(o.min);
		return o;
	}
	let need = R_WINDOW + 1;
	let n = w.len().min(need);
	let real = &w[..n];
	let pad = need - n;
	let newest = real[0];
	let oldest_real = real[n - 1];
	let (t_first, skip_oldest_real) = if pad == 0 {
		(oldest_real.ts as u128, true)
	} else {
		let step = if n > 1 {
			(real[0].ts as i128 - real[1].ts as i128).max(0) as u128
		} else {
			R_BLOCK_TIME
		};
		((oldest_real.ts as u128).saturating_sub(step * pad as u128), false)
	};
	let ts_delta = (newest.ts as u128).saturating_sub(t_first);
	// sums over the newest 60 of the 61 entries
	let take = if skip_oldest_real { n - 1 } else { n };
	let mut diff_sum: u128 = 0;
	let mut scal_sum: u128 = 0;
	let mut sec_cnt: u128 = 0;
	for e in &real[..take] {
		diff_sum += e.diff as u128;
		scal_sum += e.scal as u128;
		sec_cnt += e.sec as u128;
	}
	if pad > 0 {
		let m = (pad - 1) as u128;
		diff_sum += m * newest.diff as u128;
		scal_sum += m * net.initial_scaling();
		sec_cnt += m;
	}
	// difficulty: window span damped by 3 toward one hour, clamped within a factor 2
	let damped = (ts_delta + (R_DMA_DAMP - 1) * R_WINDOW_SPAN) / R_DMA_DAMP;
	let adj = damped.min(R_WINDOW_SPAN * R_CLAMP).max(R_WINDOW_SPAN / R_CLAMP);
	o.ts_clamped = adj != damped;
	o.min = R_MIN_DMA;
	o.diff = (diff_sum * R_BLOCK_TIME / adj).max(R_MIN_DMA);
	// bounds from damping (span >= 2/3 h) and clamping (span <= 2 h) alone
	o.lo = (diff_sum * R_BLOCK_TIME / (R_WINDOW_SPAN * R_CLAMP)).max(R_MIN_DMA);
	o.hi = (diff_sum * R_BLOCK_TIME / ((R_DMA_DAMP - 1) * R_WINDOW_SPAN / R_DMA_DAMP)).max(R_MIN_DMA);
	// secondary scaling: count of secondary blocks (in percent units) damped by 13 toward
	// the target, clamped within a factor 2
	let pct = ref_ratio(height);
	let target = R_WINDOW as u128 * pct;
	let count = 100 * sec_cnt;
	let cdamped = (count + (R_AR_DAMP - 1) * target) / R_AR_DAMP;
	let cadj = cdamped.min(target * R_CLAMP).max(target / R_CLAMP);
	o.scal = (scal_sum * pct / cadj.max(1)).max(R_MIN_AR);
	o.scal_lo = (scal_sum * pct / (target * R_CLAMP).max(1)).max(R_MIN_AR);
	o.scal_hi = (scal_sum * pct / (target / R_CLAMP).max(1)).max(R_MIN_AR);
	o
}

// ======================================================================================
// C04b — enumeration of difficulty windows
// ======================================================================================

const T0: u64 = 1_500_000_000;
const GAPS: [u64; 6] = [1, 30, 61, 120, 3600, 1_000_000];

#[derive(Clone, Copy, Debug, PartialEq, Eq)]
enum Dev {
	Gap(u64),
	DiffMul(u64),
	DiffDiv(u64),
	Flip,
	ScalAdd,
	ScalSub,
	ScalMin,
}

impl Dev {
	fn field(&self) -> u8 {
		match self {
			Dev::Gap(_) => 0,
			Dev::DiffMul(_) | Dev::DiffDiv(_) => 1,
			Dev::Flip => 2,
			_ => 3,
		}
	}
	fn name(&self) -> String {
		match self {
			Dev::Gap(g) => format!("dt={}", g),
			Dev::DiffMul(m) => format!("diff*{}", m),
			Dev::DiffDiv(m) => format!("diff/{}", m),
			Dev::Flip => "secondary-flipped".into(),
			Dev::ScalAdd => "scaling+1".into(),
			Dev::ScalSub => "scaling-1".into(),
			Dev::ScalMin => "scaling=min".into(),
		}
	}
}

#[derive(Clone, Debug)]
struct Ctx {
	net: Net,
	height: u64,
	d0: u64,
	/// real entries in the window (61 = full)
	n: usize,
	max_dev: usize,
}

/// the window as arrays, oldest first; `gap[i]` is the time step from entry i-1 to entry i
#[derive(Clone)]
struct Work {
	gap: Vec<u64>,
	diff: Vec<u64>,
	scal: Vec<u32>,
	sec: Vec<bool>,
}

impl Work {
	fn baseline(c: &Ctx) -> Work {
		let n = c.n;
		let dma = c.net.version(c.height) < 5;
		let pct = ref_ratio(c.height) as usize;
		let sec = (0..n)
			.map(|i| dma && ((i + 1) * pct / 100 != i * pct / 100))
			.collect();
		Work {
			gap: vec![60; n],
			diff: vec![c.d0; n],
			scal: vec![c.net.initial_scaling() as u32; n],
			sec,
		}
	}
	/// returns the replaced value for `undo`
	fn apply(&mut self, pos: usize, d: Dev) -> u64 {
		match d {
			Dev::Gap(g) => std::mem::replace(&mut self.gap[pos], g),
			Dev::DiffMul(m) => {
				let o = self.diff[pos];
				self.diff[pos] = o * m;
				o
			}
			Dev::DiffDiv(m) => {
				let o = self.diff[pos];
				self.diff[pos] = (o / m).max(1);
				o
			}
			Dev::Flip => {
				self.sec[pos] = !self.sec[pos];
				0
			}
			Dev::ScalAdd => {
				let o = self.scal[pos];
				self.scal[pos] = o + 1;
				o as u64
			}
			Dev::ScalSub => {
				let o = self.scal[pos];
				self.scal[pos] = o - 1;
				o as u64
			}
			Dev::ScalMin => std::mem::replace(&mut self.scal[pos], R_MIN_AR as u32) as u64,
		}
	}
	fn undo(&mut self, pos: usize, d: Dev, old: u64) {
		match d.field() {
			0 => self.gap[pos] = old,
			1 => self.diff[pos] = old,
			2 => self.sec[pos] = !self.sec[pos],
			_ => self.scal[pos] = old as u32,
		}
	}
	/// newest-first entries
	fn fill(&self, out: &mut Vec<Wd>) {
		out.clear();
		let n = self.gap.len();
		let mut ts = T0;
		for i in 0..n {
			if i > 0 {
				ts += self.gap[i];
			}
			out.push(Wd {
				ts,
				diff: self.diff[i],
				scal: self.scal[i],
				sec: self.sec[i],
			});
		}
		out.reverse();
	}
}

fn singles(n: usize) -> Vec<(usize, Dev)> {
	let mut v = vec![];
	for pos in 0..n {
		if pos > 0 {
			for g in GAPS {
				v.push((pos, Dev::Gap(g)));
			}
		}
		for m in [2, 10] {
			v.push((pos, Dev::DiffMul(m)));
			v.push((pos, Dev::DiffDiv(m)));
		}
		v.push((pos, Dev::Flip));
		v.push((pos, Dev::ScalAdd));
		v.push((pos, Dev::ScalSub));
		v.push((pos, Dev::ScalMin));
	}
	v
}

fn hdi(e: &Wd) -> HeaderDifficultyInfo {
	HeaderDifficultyInfo::new(None, e.ts, Difficulty::from_num(e.diff), e.scal, e.sec)
}

const CLS: [&str; 14] = [
	"dma:up",
	"dma:down",
	"dma:same",
	"dma:min-floor",
	"dma:span-clamped",
	"ar:up",
	"ar:down",
	"ar:same",
	"ar:min-floor",
	"wtema:up",
	"wtema:down",
	"wtema:same",
	"wtema:min-floor",
	"padded",
];

struct Rt {
	r: Report,
	cls: [u64; 14],
	buf: Vec<Wd>,
}

fn era_name(net: Net, height: u64) -> String {
	let v = net.version(height);
	format!("v{}-{}", v, if v >= 5 { "wtema" } else { "dma" })
}

fn window_json(c: &Ctx, w: &[Wd]) -> Value {
	json!({
		"part": "retarget", "net": c.net.name(), "height": c.height,
		"window_newest_first": w.iter().map(|e| json!([e.ts, e.diff.to_string(), e.scal, e.sec])).collect::<Vec<_>>(),
	})
}

/// one window: two calls of the real function, reference, bounds
/// formats the description only when the key is new (failing runs hit millions of windows)
fn lazy_violation<F: FnOnce() -> (String, Value)>(r: &mut Report, key: String, f: F) {
	if r.violations.iter().any(|v| v.key == key) {
		return;
	}
	let (what, case) = f();
	r.violation(key, what, case);
}

fn check_window(rt: &mut Rt, c: &Ctx, w: &Work, devs: &[(usize, Dev)]) {
	let mut buf = std::mem::take(&mut rt.buf);
	w.fill(&mut buf);
	let height = c.height;
	let call = |b: &Vec<Wd>| {
		catch_unwind(AssertUnwindSafe(|| {
			consensus::next_difficulty(height, b.iter().map(hdi))
		}))
	};
	let g1 = call(&buf);
	let g2 = call(&buf);
	rt.r.evaluations += 2;
	rt.r.distinct += 1;
	let key = |what: &str| format!("retarget:{}:{}:{}", c.net.name(), era_name(c.net, height), what);
	let exp = ref_next(c.net, height, &buf);
	match (g1, g2) {
		(Ok(a), Ok(b)) => {
			let (gd, gs) = (a.difficulty.to_num() as u128, a.secondary_scaling as u128);
			let desc = || {
				format!(
					"deviations {:?} on baseline d0={} n={}",
					devs.iter().map(|(p, d)| format!("{}@{}", d.name(), p)).collect::<Vec<_>>(),
					c.d0,
					c.n
				)
			};
			if a != b {
				lazy_violation(&mut rt.r, key("nondeterministic"), || (format!("two calls differ: {:?} vs {:?} ({})", a, b, desc()), window_json(c, &buf)));
			}
			if gd != exp.diff {
				lazy_violation(&mut rt.r, key("difficulty"), || (format!("next_difficulty({}) difficulty = {} expected {} ({})", height, gd, exp.diff, desc()), window_json(c, &buf)));
			}
			if gs != exp.scal {
				lazy_violation(&mut rt.r, key("scaling"), || (format!("next_difficulty({}) secondary_scaling = {} expected {} ({})", height, gs, exp.scal, desc()), window_json(c, &buf)));
			}
			if gd < exp.min {
				lazy_violation(&mut rt.r, key("below-min"), || (format!("difficulty {} below the minimum {} ({})", gd, exp.min, desc()), window_json(c, &buf)));
			}
			if gd < exp.lo || gd > exp.hi {
				lazy_violation(&mut rt.r, key("step-bound"), || (format!("difficulty {} outside the damp/clamp bound [{}, {}] ({})", gd, exp.lo, exp.hi, desc()), window_json(c, &buf)));
			}
			if !exp.wtema && (gs < exp.scal_lo || gs > exp.scal_hi) {
				lazy_violation(&mut rt.r, key("ar-bound"), || (format!("secondary scaling {} outside the clamp bound [{}, {}] ({})", gs, exp.scal_lo, exp.scal_hi, desc()), window_json(c, &buf)));
			}
			// outcome classes relative to the newest entry
			let last = buf[0];
			let base = if exp.wtema { 9 } else { 0 };
			let k = if gd == exp.min && (last.diff as u128) != exp.min {
				3
			} else if gd > last.diff as u128 {
				0
			} else if gd < last.diff as u128 {
				1
			} else {
				2
			};
			rt.cls[base + k] += 1;
			if !exp.wtema {
				if exp.ts_clamped {
					rt.cls[4] += 1;
				}
				let k = if gs == R_MIN_AR && last.scal as u128 != R_MIN_AR {
					8
				} else if gs > last.scal as u128 {
					5
				} else if gs < last.scal as u128 {
					6
				} else {
					7
				};
				rt.cls[k] += 1;
				if c.n < R_WINDOW + 1 {
					rt.cls[13] += 1;
				}
			}
			if devs.len() == 2 && rt.r.samples.len() < 3 && devs[0].0 + 7 == devs[1].0 {
				rt.r.sample(json!({"net": c.net.name(), "height": height, "d0": c.d0.to_string(), "real_entries": c.n,
					"deviations": devs.iter().map(|(p, d)| format!("{}@{}", d.name(), p)).collect::<Vec<_>>(),
					"difficulty": gd.to_string(), "secondary_scaling": gs}));
			}
		}
		_ => {
			lazy_violation(&mut rt.r, key("panic"), || (format!("next_difficulty({}) panicked on a window a valid chain can produce", height), window_json(c, &buf)));
		}
	}
	rt.buf = buf;
}

fn conflict(a: (usize, Dev), b: (usize, Dev)) -> bool {
	a.0 == b.0 && a.1.field() == b.1.field()
}

/// all windows of context `c` whose first deviation is `sg[i]` (i = None: the baseline itself)
fn run_unit(rt: &mut Rt, c: &Ctx, sg: &[(usize, Dev)], i: Option<usize>) {
	let mut w = Work::baseline(c);
	let i = match i {
		None => {
			check_window(rt, c, &w, &[]);
			return;
		}
		Some(i) => i,
	};
	let a = sg[i];
	let oa = w.apply(a.0, a.1);
	check_window(rt, c, &w, &[a]);
	if c.max_dev >= 2 {
		for j in i + 1..sg.len() {
			let b = sg[j];
			if conflict(a, b) {
				continue;
			}
			let ob = w.apply(b.0, b.1);
			check_window(rt, c, &w, &[a, b]);
			if c.max_dev >= 3 {
				for l in j + 1..sg.len() {
					let d = sg[l];
					if conflict(a, d) || conflict(b, d) {
						continue;
					}
					let od = w.apply(d.0, d.1);
					check_window(rt, c, &w, &[a, b, d]);
					w.undo(d.0, d.1, od);
				}
			}
			w.undo(b.0, b.1, ob);
		}
	}
	w.undo(a.0, a.1, oa);
}

fn d0s(net: Net, height: u64) -> [u64; 3] {
	let min = if net.version(height) >= 5 {
		net.min_wtema() as u64
	} else {
		R_MIN_DMA as u64
	};
	[min, 1000, 1 << 40]
}

fn full_contexts(tier: Tier) -> Vec<Ctx> {
	// (net, heights per era); the first height of every era gets the deeper bound (all three
	// base difficulties on Mainnet, d0 = 1000 elsewhere)
	let hf = R_YEAR / 2;
	let plan: Vec<(Net, Vec<Vec<u64>>)> = vec![
		(
			Net::Main,
			vec![
				vec![61, 2 * R_YEAR / 90, hf - 1],
				vec![hf, 2 * hf - 1],
				vec![2 * hf, 3 * hf - 1],
				vec![3 * hf, 4 * hf - 1],
				vec![4 * hf, 4 * hf + 1, 3_000_000],
			],
		),
		(
			Net::Test,
			vec![
				vec![61, 185_039],
				vec![185_040, 298_079],
				vec![298_080, 552_959],
				vec![552_960, 642_239],
				vec![642_240, 1_000_000],
			],
		),
		(Net::Auto, vec![vec![61, 62, 1000]]),
		(Net::User, vec![vec![61, 62, 1000]]),
	];
	let mut out = vec![];
	for (net, eras) in plan {
		for era in eras {
			for (k, h) in era.iter().enumerate() {
				for d0 in d0s(net, *h) {
					// quick: the other heights of an era only on the middle base difficulty
					if tier == Tier::Quick && k > 0 && d0 != 1000 {
						continue;
					}
					out.push(Ctx {
						net,
						height: *h,
						d0,
						n: R_WINDOW + 1,
						max_dev: if k == 0 && (net == Net::Main || d0 == 1000) { tier.pick(2, 3) } else { 2 },
					});
				}
			}
		}
	}
	out
}

fn short_contexts(tier: Tier) -> Vec<Ctx> {
	let mut out = vec![];
	for net in Net::all() {
		for n in 1..=R_WINDOW {
			let height = n as u64;
			for d0 in d0s(net, height) {
				// a chain at height n has exactly n headers behind it
				let deep = net == Net::Auto && n <= 16;
				out.push(Ctx {
					net,
					height,
					d0,
					n,
					max_dev: if deep { tier.pick(2, 3) } else { tier.pick(1, 2) },
				});
			}
		}
	}
	out
}

fn retarget(tier: Tier, short: bool, shard: usize, nsh: usize) -> Report {
	let mut rt = Rt {
		r: Report::new(),
		cls: [0; 14],
		buf: Vec::with_capacity(64),
	};
	let ctxs = if short { short_contexts(tier) } else { full_contexts(tier) };
	// a panic inside the function under test is recorded as a violation, not printed per case
	let hook = std::panic::take_hook();
	std::panic::set_hook(Box::new(|_| {}));
	let mut unit = 0u64;
	let mut sg_cache: HashMap<usize, Vec<(usize, Dev)>> = HashMap::new();
	for c in &ctxs {
		global::set_local_chain_type(c.net.chain_type());
		let sg = sg_cache.entry(c.n).or_insert_with(|| singles(c.n));
		// WTEMA with a single header behind it cannot occur on a valid chain (HF4 is past height 1)
		if c.net.version(c.height) >= 5 && c.n < 2 {
			continue;
		}
		for i in std::iter::once(None).chain((0..sg.len()).map(Some)) {
			if mine(unit, shard, nsh) {
				run_unit(&mut rt, c, sg, i);
			}
			unit += 1;
		}
	}
	std::panic::set_hook(hook);
	uni::init_thread();
	for (k, n) in rt.cls.iter().enumerate() {
		if *n > 0 {
			rt.r.outcomes.insert(CLS[k].to_string(), *n);
		}
	}
	rt.r.extra.insert("bound_max_deviations".into(), json!(ctxs.iter().map(|c| c.max_dev).max().unwrap_or(0)));
	rt.r.extra.insert("contexts".into(), json!(if shard == 0 { ctxs.len() } else { 0 }));
	rt.r
}

/// fork schedule and graph weight on every chain type, at and around every boundary
fn schedule(_tier: Tier) -> Report {
	let mut r = Report::new();
	let week = 7 * 24 * 60u64;
	for net in Net::all() {
		global::set_local_chain_type(net.chain_type());
		let mut hs: Vec<u64> = vec![];
		let mut marks: Vec<u64> = vec![0, 3, 6, 9, 12, 15, 61, R_YEAR, R_YEAR + week, R_YEAR + 31 * week, R_YEAR + 40 * week, 10 * R_YEAR];
		for k in 1..=5 {
			marks.push(k * R_YEAR / 2);
		}
		marks.extend([185_040, 298_080, 552_960, 642_240]);
		for m in marks {
			for d in -2i64..=2 {
				if m as i64 + d >= 0 {
					hs.push((m as i64 + d) as u64);
				}
			}
		}
		hs.sort();
		hs.dedup();
		for &h in &hs {
			let want = net.version(h);
			let got = consensus::header_version(h).0;
			r.evaluations += 1;
			r.distinct += 1;
			r.outcome(&format!("{}:v{}", net.name(), want));
			if got != want {
				r.violation(
					format!("schedule:{}:header_version", net.name()),
					format!("header_version({}) = {} on {}, the schedule says {}", h, got, net.name(), want),
					json!({"part": "schedule", "net": net.name(), "height": h}),
				);
			}
			for v in 0..=7u16 {
				r.evaluations += 1;
				if consensus::valid_header_version(h, HeaderVersion(v)) != (v == want) {
					r.violation(
						format!("schedule:{}:valid_header_version", net.name()),
						format!("valid_header_version({}, {}) = {} on {}, scheduled version is {}", h, v, v != want, net.name(), want),
						json!({"part": "schedule", "net": net.name(), "height": h, "version": v}),
					);
				}
			}
			// graph weight: 2^(edge_bits - base + 1) * edge_bits; 31-bit graphs lose one bit of
			// weight per week after the first year (one at once, floor 0)
			for eb in net.base_edge_bits()..net.base_edge_bits() + 30 {
				let mut bits = eb as u128;
				if eb == 31 && h >= R_YEAR {
					bits = bits.saturating_sub(1 + ((h - R_YEAR) / week) as u128);
				}
				let want = (2u128 << (eb - net.base_edge_bits())) * bits;
				let got = consensus::graph_weight(h, eb) as u128;
				r.evaluations += 1;
				r.distinct += 1;
				if got != want {
					r.violation(
						format!("schedule:{}:graph_weight", net.name()),
						format!("graph_weight({}, {}) = {} on {}, expected {}", h, eb, got, net.name(), want),
						json!({"part": "schedule", "net": net.name(), "height": h, "edge_bits": eb}),
					);
				}
			}
		}
		r.sample(json!({"net": net.name(), "heights": hs.len(), "first": hs[..5].to_vec(), "last": hs[hs.len() - 3..].to_vec()}));
	}
	uni::init_thread();
	r
}

// ======================================================================================
// Reference header rules (C04a)
// ======================================================================================

type H32 = [u8; 32];

fn h32(b: &[u8]) -> H32 {
	let mut o = [0u8; 32];
	o.copy_from_slice(&b[..32]);
	o
}

/// plain-data copy of a header's fields
#[derive(Clone, Debug)]
struct RH {
	version: u16,
	height: u64,
	ts: i64,
	prev_hash: H32,
	prev_root: H32,
	output_root: H32,
	range_proof_root: H32,
	kernel_root: H32,
	offset: H32,
	out_size: u64,
	kern_size: u64,
	td: u64,
	scaling: u32,
	nonce: u64,
	edge_bits: u8,
	nonces: Vec<u64>,
}

fn rh(h: &BlockHeader) -> RH {
	RH {
		version: h.version.0,
		height: h.height,
		ts: h.timestamp.timestamp(),
		prev_hash: h32(h.prev_hash.as_bytes()),
		prev_root: h32(h.prev_root.as_bytes()),
		output_root: h32(h.output_root.as_bytes()),
		range_proof_root: h32(h.range_proof_root.as_bytes()),
		kernel_root: h32(h.kernel_root.as_bytes()),
		offset: h32(h.total_kernel_offset.as_ref()),
		out_size: h.output_mmr_size,
		kern_size: h.kernel_mmr_size,
		td: h.pow.total_difficulty.to_num(),
		scaling: h.pow.secondary_scaling,
		nonce: h.pow.nonce,
		edge_bits: h.pow.proof.edge_bits,
		nonces: h.pow.proof.nonces.clone(),
	}
}

impl RH {
	/// everything the proof of work commits to, big-endian fields in header order
	fn pre_pow(&self) -> Vec<u8> {
		let mut v = Vec::with_capacity(256);
		v.extend_from_slice(&self.version.to_be_bytes());
		v.extend_from_slice(&self.height.to_be_bytes());
		v.extend_from_slice(&self.ts.to_be_bytes());
		v.extend_from_slice(&self.prev_hash);
		v.extend_from_slice(&self.prev_root);
		v.extend_from_slice(&self.output_root);
		v.extend_from_slice(&self.range_proof_root);
		v.extend_from_slice(&self.kernel_root);
		v.extend_from_slice(&self.offset);
		v.extend_from_slice(&self.out_size.to_be_bytes());
		v.extend_from_slice(&self.kern_size.to_be_bytes());
		v.extend_from_slice(&self.td.to_be_bytes());
		v.extend_from_slice(&self.scaling.to_be_bytes());
		v.extend_from_slice(&self.nonce.to_be_bytes());
		v
	}
	/// edge index i occupies bits i*edge_bits .. (i+1)*edge_bits-1 of a little-endian integer
	fn packed_proof(&self) -> Vec<u8> {
		let eb = self.edge_bits as usize;
		let mut out = vec![0u8; (eb * self.nonces.len() + 7) / 8];
		for (i, n) in self.nonces.iter().enumerate() {
			for b in 0..eb {
				if (n >> b) & 1 == 1 {
					let p = i * eb + b;
					out[p / 8] |= 1 << (p % 8);
				}
			}
		}
		out
	}
	/// the header hash is the hash of the packed proof
	fn hash(&self) -> H32 {
		h32(blake2b(32, &[], &self.packed_proof()).as_bytes())
	}
	fn is_secondary(&self) -> bool {
		self.edge_bits == R_SECONDARY_EDGE_BITS
	}
	/// header MMR leaf content: a header enters the MMR the way it is hashed, by its packed
	/// proof (the MMR prefixes the position)
	fn entry(&self) -> Vec<u8> {
		self.packed_proof()
	}
}

fn rotl(x: u64, b: u32) -> u64 {
	(x << b) | (x >> (64 - b))
}

/// siphash-2-4 of one 64-bit word, the four key words used directly as the state
fn ref_siphash24(k: &[u64; 4], nonce: u64) -> u64 {
	let (mut v0, mut v1, mut v2, mut v3) = (k[0], k[1], k[2], k[3]);
	let round = |v0: &mut u64, v1: &mut u64, v2: &mut u64, v3: &mut u64| {
		*v0 = v0.wrapping_add(*v1);
		*v2 = v2.wrapping_add(*v3);
		*v1 = rotl(*v1, 13);
		*v3 = rotl(*v3, 16);
		*v1 ^= *v0;
		*v3 ^= *v2;
		*v0 = rotl(*v0, 32);
		*v2 = v2.wrapping_add(*v1);
		*v0 = v0.wrapping_add(*v3);
		*v1 = rotl(*v1, 17);
		*v3 = rotl(*v3, 21);
		*v1 ^= *v2;
		*v3 ^= *v0;
		*v2 = rotl(*v2, 32);
	};
	v3 ^= nonce;
	round(&mut v0, &mut v1, &mut v2, &mut v3);
	round(&mut v0, &mut v1, &mut v2, &mut v3);
	v0 ^= nonce;
	v2 ^= 0xff;
	for _ in 0..4 {
		round(&mut v0, &mut v1, &mut v2, &mut v3);
	}
	v0 ^ v1 ^ v2 ^ v3
}

/// Cuckatoo: the edges named by the proof form one cycle of the required length in the
/// bipartite graph whose edge e has endpoints siphash(2e) and siphash(2e+1); consecutive edges
/// of the cycle meet in a node pair (x, x^1).
fn ref_cycle_ok(c: &RH, proofsize: usize) -> bool {
	if c.nonces.len() != proofsize || c.edge_bits == 0 || c.edge_bits > 63 {
		return false;
	}
	let mask = (1u64 << c.edge_bits) - 1;
	for i in 0..proofsize {
		if c.nonces[i] > mask || (i > 0 && c.nonces[i] <= c.nonces[i - 1]) {
			return false;
		}
	}
	let kb = blake2b(32, &[], &c.pre_pow());
	let kb = kb.as_bytes();
	let mut keys = [0u64; 4];
	for i in 0..4 {
		let mut w = [0u8; 8];
		w.copy_from_slice(&kb[8 * i..8 * i + 8]);
		keys[i] = u64::from_le_bytes(w);
	}
	// endpoint[edge][side]
	let ep: Vec<[u64; 2]> = c
		.nonces
		.iter()
		.map(|e| {
			[
				ref_siphash24(&keys, 2 * e) & mask,
				ref_siphash24(&keys, 2 * e + 1) & mask,
			]
		})
		.collect();
	let (mut i, mut side, mut steps) = (0usize, 0usize, 0usize);
	let mut seen = vec![false; proofsize];
	loop {
		if seen[i] {
			return false;
		}
		seen[i] = true;
		let x = ep[i][side];
		let cand: Vec<usize> = (0..proofsize).filter(|j| *j != i && ep[*j][side] >> 1 == x >> 1).collect();
		if cand.len() != 1 || ep[cand[0]][side] != x ^ 1 {
			return false;
		}
		i = cand[0];
		side ^= 1;
		steps += 1;
		if i == 0 {
			// back at the first edge, through its other endpoint, after visiting every edge
			return steps == proofsize && side == 0 && seen.iter().all(|s| *s);
		}
		if steps > proofsize {
			return false;
		}
	}
}

/// difficulty achieved by the proof: (weight << 64) / proof hash, capped
fn ref_pow_difficulty(net: Net, c: &RH) -> u128 {
	let scale: u128 = if c.is_secondary() {
		c.scaling as u128
	} else if c.edge_bits >= net.base_edge_bits() {
		// heights of the explored chains are far below the C31 phase-out
		net.weight0(c.edge_bits)
	} else {
		0
	};
	let hh = c.hash();
	let mut w = [0u8; 8];
	w.copy_from_slice(&hh[..8]);
	let hv = (u64::from_be_bytes(w) as u128).max(1);
	((scale << 64) / hv).min(u64::MAX as u128).max(1)
}

fn ref_leaves(mmr_size: u64) -> u128 {
	refmmr::ref_leaves_below(mmr_size as u128)
}

#[derive(Clone, Default)]
struct Known {
	map: HashMap<H32, RH>,
}

impl Known {
	fn add(&mut self, h: &RH) {
		self.map.insert(h.hash(), h.clone());
	}
	/// ancestors from `start` back to genesis, newest first
	fn line(&self, start: &H32) -> Vec<&RH> {
		let mut out = vec![];
		let mut cur = *start;
		while let Some(h) = self.map.get(&cur) {
			out.push(h);
			cur = h.prev_hash;
			if h.height == 0 || out.len() > 100_000 {
				break;
			}
		}
		out
	}
	fn mmr_root_of(line_newest_first: &[&RH], extra: Option<&RH>) -> (H32, u64) {
		let mut f = Forest::new(true);
		for h in line_newest_first.iter().rev() {
			f.push(&h.entry());
		}
		if let Some(h) = extra {
			f.push(&h.entry());
		}
		(f.root(), f.size())
	}
}

#[derive(Clone, Copy, PartialEq, Eq, Debug)]
enum Entry {
	Pbh,
	Sync(u64),
	Block,
	/// the genuine header of that height was accepted header-first, then the full block arrives
	/// under the candidate header (a raw candidate keeps the genuine proof, i.e. the same hash)
	BlockKnown,
	/// the genuine header of that height was accepted first, then the candidate arrives through header sync
	/// (a raw candidate keeps the genuine proof, i.e. the hash of a header the node already has)
	SyncKnown,
	Read,
}

impl Entry {
	fn name(&self) -> &'static str {
		match self {
			Entry::Pbh => "process_block_header",
			Entry::Sync(_) => "sync_block_headers",
			Entry::Block => "process_block",
			Entry::BlockKnown => "process_block_after_header",
			Entry::SyncKnown => "sync_block_headers_after_header",
			Entry::Read => "untrusted_read",
		}
	}
}

const AUTO_PROOFSIZE: usize = 8;
const AUTO_MAX_WEIGHT: u128 = 250;

/// Rules of the property a candidate violates when offered to the chain pipeline with the
/// headers in `known` (empty = must be accepted).
fn ref_rules_pipeline(net: Net, known: &Known, c: &RH) -> Vec<&'static str> {
	let mut v = vec![];
	// proof of work, independent of the parent
	let eb_ok = c.is_secondary() || c.edge_bits >= net.min_edge_bits();
	if !eb_ok {
		v.push("pow-edge-bits");
	} else if !ref_cycle_ok(c, AUTO_PROOFSIZE) {
		v.push("pow-cycle");
	}
	if c.version != net.version(c.height) {
		v.push("version");
	}
	let line = known.line(&c.prev_hash);
	if line.is_empty() {
		v.push("parent-known");
		return v;
	}
	let p = line[0];
	if c.height != p.height + 1 {
		v.push("height");
	}
	if c.ts <= p.ts {
		v.push("time-order");
	}
	let new_out = ref_leaves(c.out_size).saturating_sub(ref_leaves(p.out_size));
	let new_kern = ref_leaves(c.kern_size).saturating_sub(ref_leaves(p.kern_size));
	if new_out == 0 || new_kern == 0 || new_out * 21 + new_kern * 3 > AUTO_MAX_WEIGHT {
		v.push("body-size");
	}
	// the window behind the candidate: every ancestor with its own difficulty
	let mut w: Vec<Wd> = vec![];
	for (i, a) in line.iter().enumerate() {
		let below = line.get(i + 1).map(|x| x.td).unwrap_or(0);
		w.push(Wd {
			ts: a.ts as u64,
			diff: a.td.saturating_sub(below),
			scal: a.scaling,
			sec: a.is_secondary(),
		});
	}
	let next = ref_next(net, c.height, &w);
	if c.td <= p.td || (c.td - p.td) as u128 != next.diff {
		v.push("difficulty-increment");
	}
	if net.version(c.height) < 5 && c.scaling as u128 != next.scal {
		v.push("secondary-scaling");
	}
	if eb_ok && !v.contains(&"pow-cycle") && ref_pow_difficulty(net, c) < (c.td.saturating_sub(p.td)) as u128 {
		v.push("pow-difficulty");
	}
	let (root, _) = Known::mmr_root_of(&line, None);
	if root != c.prev_root {
		v.push("prev-root");
	}
	v
}

/// Rules checked when a header is decoded from the network. `now_ns`: reading of the clock.
fn ref_rules_read(net: Net, c: &RH, now_ns: i128) -> Vec<&'static str> {
	let mut v = vec![];
	if (c.ts as i128) * 1_000_000_000 > now_ns + (R_FTL as i128) * 1_000_000_000 {
		v.push("future-time");
	}
	if c.version != net.version(c.height) {
		v.push("version");
	}
	let eb_ok = c.is_secondary() || c.edge_bits >= net.min_edge_bits();
	if !eb_ok {
		v.push("pow-edge-bits");
	} else if !ref_cycle_ok(c, AUTO_PROOFSIZE) {
		v.push("pow-cycle");
	}
	if ref_leaves(c.out_size) * 21 + ref_leaves(c.kern_size) * 3 > AUTO_MAX_WEIGHT * (c.height as u128 + 1) {
		v.push("total-size");
	}
	v
}

// ======================================================================================
// C04a — universe, mutation catalogue, case runner
// ======================================================================================

/// Case directories are created and deleted ~10^4 times per run and every chain commit
/// fsyncs: a RAM-backed directory is used when there is one (GV_SCRATCH overrides).
fn scratch_root() -> PathBuf {
	if let Ok(s) = std::env::var("GV_SCRATCH") {
		return PathBuf::from(s);
	}
	let shm = PathBuf::from("/dev/shm");
	if shm.is_dir() {
		let p = shm.join("gv-scratch");
		if std::fs::create_dir_all(&p).is_ok() {
			return p;
		}
	}
	match std::env::var("GV_OUT") {
		Ok(o) => PathBuf::from(o).join("scratch"),
		Err(_) => PathBuf::from("/verif/target/scratch"),
	}
}

struct Scratch {
	root: PathBuf,
	ctr: std::cell::Cell<u64>,
}

impl Scratch {
	fn new(tag: &str) -> Scratch {
		let root = scratch_root().join(format!("{}-{}", tag, std::process::id()));
		let _ = std::fs::remove_dir_all(&root);
		std::fs::create_dir_all(&root).expect("scratch dir");
		Scratch {
			root,
			ctr: std::cell::Cell::new(0),
		}
	}
	fn fresh(&self, name: &str) -> PathBuf {
		let n = self.ctr.get();
		self.ctr.set(n + 1);
		self.root.join(format!("{}-{}", name, n))
	}
}

impl Drop for Scratch {
	fn drop(&mut self) {
		let _ = std::fs::remove_dir_all(&self.root);
	}
}

const CHAIN_LEN: u64 = 16;

/// block time patterns of the explored chains
const PATTERNS: [(&str, [i64; 16]); 3] = [
	// difficulty climbs 3 -> 60 through the DMA eras, WTEMA then moves it down in steps
	("bursts", [1, 1, 1, 1, 1, 1, 1, 1, 1, 1, 1, 7200, 1, 7200, 1, 600]),
	// a climb, one slow block and the decline it causes; WTEMA at its floor
	("irregular", [1, 1, 1, 1, 1, 1, 7200, 1, 1, 1, 1, 90, 1, 7200, 30, 61]),
	("regular", [60; 16]),
];

struct Universe {
	pattern: &'static str,
	sc: Scratch,
	gen: Block,
	/// blocks[h], h = 0..=16 (0 = genesis)
	blocks: Vec<Block>,
	/// sibs[h]: another valid block at height h on the same parent (h = 1..=15)
	sibs: Vec<Option<Block>>,
	/// snaps[j]: chain directory holding blocks 0..=j
	snaps: Vec<PathBuf>,
	rhs: Vec<RH>,
	/// items of the node's difficulty iterator compared with the reference while building
	iter_items: u64,
}

impl Universe {
	fn describe(&self) -> Value {
		let rows: Vec<Value> = (1..=CHAIN_LEN as usize)
			.map(|h| {
				let (a, b) = (&self.rhs[h], &self.rhs[h - 1]);
				json!({"height": h, "version": a.version, "dt": a.ts - b.ts, "difficulty": a.td - b.td, "secondary_scaling": a.scaling, "nonce": a.nonce})
			})
			.collect();
		json!(rows)
	}
}

/// why the genuine chain could not be built: the violation to report
struct Refused {
	key: String,
	what: String,
	case: Value,
}

/// Builds the genuine chain with the node's own difficulty iterator, retarget function and
/// roots. Every genuine header must satisfy the reference and be accepted by the chain.
fn build_universe(pattern: usize) -> Result<Universe, Refused> {
	let (pname, dts) = PATTERNS[pattern];
	let sc = Scratch::new(&format!("c04-{}", pname));
	let kc: ExtKeychain = uni::keychain(4);
	let gen = uni::genesis(&kc);
	let dir = sc.fresh("builder");
	let mut blocks = vec![gen.clone()];
	let mut sibs: Vec<Option<Block>> = vec![None];
	let mut snaps = vec![];
	let mut iter_items = 0u64;
	{
		let chain = uni::open_chain(&dir, &gen);
		drop(chain);
		let s = sc.fresh("snap");
		uni::copy_dir(&dir, &s);
		snaps.push(s);
	}
	for h in 1..=CHAIN_LEN {
		let chain = uni::open_chain(&dir, &gen);
		let prev = blocks[h as usize - 1].header.clone();
		let case = json!({"part": "headers", "pattern": pname, "height": h, "op": "identity", "remined": false, "entry": "process_block", "batch_len": 0});
		let build = |key: u32| {
			let spec = uni::BlockSpec {
				txs: vec![],
				reward_key: key,
				dt: dts[h as usize - 1],
			};
			match catch_unwind(AssertUnwindSafe(|| uni::build_block(&chain, &kc, &prev, &spec))) {
				Ok(Ok(b)) => Ok(b),
				Ok(Err(e)) => Err(Refused {
					key: "headers:genuine-block-not-buildable".into(),
					what: format!("building the genuine block at height {} of chain '{}' failed: {}", h, pname, e),
					case: case.clone(),
				}),
				Err(_) => Err(Refused {
					key: "headers:panic:build".into(),
					what: format!("the node's difficulty / root code panicked while building the genuine block at height {} of chain '{}'", h, pname),
					case: case.clone(),
				}),
			}
		};
		let b = build(h as u32)?;
		let mut kn = Known::default();
		for x in &blocks {
			kn.add(&rh(&x.header));
		}
		let v = ref_rules_pipeline(Net::Auto, &kn, &rh(&b.header));
		if !v.is_empty() {
			return Err(Refused {
				key: format!("headers:genuine-header-violates:{}", v.join("+")),
				what: format!("the header the node itself builds at height {} of chain '{}' (difficulty {}, scaling {}) violates {:?}", h, pname, b.header.pow.total_difficulty.to_num() - prev.pow.total_difficulty.to_num(), b.header.pow.secondary_scaling, v),
				case,
			});
		}
		match catch_unwind(AssertUnwindSafe(|| chain.process_block(b.clone(), Options::NONE))) {
			Ok(Ok(_)) => {}
			Ok(Err(e)) => {
				return Err(Refused {
					key: "headers:rejected-valid:identity:raw:process_block".into(),
					what: format!("refused ({}) the genuine block at height {} of chain '{}', which obeys every rule", err_class(&e), h, pname),
					case,
				})
			}
			Err(_) => {
				return Err(Refused {
					key: "headers:panic:process_block".into(),
					what: format!("process_block panicked on the genuine block at height {} of chain '{}'", h, pname),
					case,
				})
			}
		}
		// the node's difficulty iterator from the new head must yield exactly the ancestors'
		// (timestamp, own difficulty, scaling, secondary flag), newest first
		kn.add(&rh(&b.header));
		let want: Vec<Wd> = {
			let line = kn.line(&rh(&b.header).hash());
			line.iter()
				.enumerate()
				.map(|(i, a)| Wd {
					ts: a.ts as u64,
					diff: a.td - line.get(i + 1).map(|x| x.td).unwrap_or(0),
					scal: a.scaling,
					sec: a.is_secondary(),
				})
				.collect()
		};
		let got: Vec<Wd> = match catch_unwind(AssertUnwindSafe(|| {
			DifficultyIter::from(b.hash(), chain.store())
				.map(|x| Wd {
					ts: x.timestamp,
					diff: x.difficulty.to_num(),
					scal: x.secondary_scaling,
					sec: x.is_secondary,
				})
				.collect::<Vec<Wd>>()
		})) {
			Ok(g) => g,
			Err(_) => vec![],
		};
		iter_items += got.len() as u64;
		if got != want {
			return Err(Refused {
				key: "headers:difficulty-iter".into(),
				what: format!("DifficultyIter from the head at height {} of chain '{}' yields {:?}, the ancestors are {:?}", h, pname, got, want),
				case,
			});
		}
		let sib = if h < CHAIN_LEN { Some(build(100 + h as u32)?) } else { None };
		drop(chain);
		let s = sc.fresh("snap");
		uni::copy_dir(&dir, &s);
		snaps.push(s);
		blocks.push(b);
		sibs.push(sib);
	}
	let _ = std::fs::remove_dir_all(&dir);
	let rhs = blocks.iter().map(|b| rh(&b.header)).collect();
	Ok(Universe {
		pattern: pname,
		sc,
		gen,
		blocks,
		sibs,
		snaps,
		rhs,
		iter_items,
	})
}

const OPS: [&str; 36] = [
	"identity",
	"height+1",
	"height-1",
	"ts=parent",
	"ts=parent-1",
	"ts=parent+1",
	"ts=now+ftl+1",
	"ts=now+ftl-1",
	"version+1",
	"version-1",
	"prev_hash=sibling",
	"prev_hash=unknown",
	"prev_hash=zero",
	"prev_hash=grandparent+its-root",
	"prev_root-bitflip",
	"total_difficulty+1",
	"total_difficulty-1",
	"total_difficulty=parent",
	"secondary_scaling+1",
	"secondary_scaling-1",
	"nonce+1",
	"edge_bits+1",
	"edge_bits-1",
	"edge_bits=29",
	"proof_nonce+1",
	"proof_nonce-1",
	"output_mmr_size=parent",
	"kernel_mmr_size=parent",
	"output_mmr_size-too-heavy",
	"kernel_mmr_size-too-heavy",
	"output_mmr_size-huge",
	"pow-below-target",
	"output_mmr_size-heaviest-allowed",
	"kernel_mmr_size-heaviest-allowed",
	"output_mmr_size-total-max",
	"output_mmr_size-total-max+1",
];

fn ts(secs: i64) -> DateTime<Utc> {
	DateTime::<Utc>::from_timestamp(secs, 0).expect("timestamp")
}

/// MMR size holding n leaves
fn mmr_size_for(n: u64) -> u64 {
	2 * n - n.count_ones() as u64
}

fn flip_last(h: &Hash) -> Hash {
	let mut b = h.to_vec();
	b[31] ^= 1;
	Hash::from_vec(&b)
}

/// the single-field mutation `op` of the genuine header at height h; None = not applicable
fn mutate(u: &Universe, h: u64, op: &str, remined: bool, now_s: i64) -> Option<BlockHeader> {
	let orig = &u.blocks[h as usize].header;
	let parent = &u.blocks[h as usize - 1].header;
	let mut m = orig.clone();
	match op {
		"identity" => {
			if remined {
				return None;
			}
		}
		"height+1" => m.height += 1,
		"height-1" => m.height -= 1,
		"ts=parent" => m.timestamp = parent.timestamp,
		"ts=parent-1" => m.timestamp = parent.timestamp - Duration::seconds(1),
		"ts=parent+1" => m.timestamp = parent.timestamp + Duration::seconds(1),
		"ts=now+ftl+1" => m.timestamp = ts(now_s + R_FTL + 1),
		"ts=now+ftl-1" => m.timestamp = ts(now_s + R_FTL - 1),
		"version+1" => m.version = HeaderVersion(m.version.0 + 1),
		"version-1" => m.version = HeaderVersion(m.version.0 - 1),
		"prev_hash=sibling" => match &u.sibs[h as usize - 1] {
			Some(s) => m.prev_hash = s.hash(),
			None => return None,
		},
		"prev_hash=unknown" => m.prev_hash = Hash::from_vec(&[0xabu8; 32]),
		"prev_hash=zero" => m.prev_hash = Hash::from_vec(&[0u8; 32]),
		"prev_hash=grandparent+its-root" => {
			// names the header two below (a known one) and commits to the header MMR root that goes with it;
			// height, time and difficulty still continue the positional neighbour in a batch
			if h < 2 {
				return None;
			}
			m.prev_hash = u.blocks[h as usize - 2].header.hash();
			m.prev_root = parent.prev_root;
		}
		"prev_root-bitflip" => m.prev_root = flip_last(&m.prev_root),
		"total_difficulty+1" => m.pow.total_difficulty = Difficulty::from_num(orig.pow.total_difficulty.to_num() + 1),
		"total_difficulty-1" => m.pow.total_difficulty = Difficulty::from_num(orig.pow.total_difficulty.to_num() - 1),
		"total_difficulty=parent" => m.pow.total_difficulty = parent.pow.total_difficulty,
		"secondary_scaling+1" => m.pow.secondary_scaling += 1,
		"secondary_scaling-1" => m.pow.secondary_scaling -= 1,
		"nonce+1" => m.pow.nonce += 1,
		"edge_bits+1" => m.pow.proof.edge_bits += 1,
		"edge_bits-1" => m.pow.proof.edge_bits -= 1,
		"edge_bits=29" => {
			// a 29-bit graph cannot be solved here: raw only
			if remined {
				return None;
			}
			m.pow.proof.edge_bits = 29
		}
		"proof_nonce+1" | "proof_nonce-1" => {
			// re-mining would replace the proof
			if remined {
				return None;
			}
			let k = m.pow.proof.nonces.len() / 2;
			if op == "proof_nonce+1" {
				m.pow.proof.nonces[k] += 1;
			} else {
				m.pow.proof.nonces[k] -= 1;
			}
		}
		"output_mmr_size=parent" => m.output_mmr_size = parent.output_mmr_size,
		"kernel_mmr_size=parent" => m.kernel_mmr_size = parent.kernel_mmr_size,
		"output_mmr_size-too-heavy" => m.output_mmr_size = mmr_size_for(h + 12),
		"kernel_mmr_size-too-heavy" => m.kernel_mmr_size = mmr_size_for(h + 77),
		// 11 outputs + 1 kernel weigh 234, 1 output + 76 kernels 249: the most a header may claim
		"output_mmr_size-heaviest-allowed" => m.output_mmr_size = mmr_size_for(h + 11),
		"kernel_mmr_size-heaviest-allowed" => m.kernel_mmr_size = mmr_size_for(h + 76),
		// cumulative bound applied when decoding: 21 * outputs + 3 * kernels <= 250 * (height + 1)
		"output_mmr_size-total-max" | "output_mmr_size-total-max+1" => {
			let kernels = h + 1;
			let max_out = (250 * (h + 1) - 3 * kernels) / 21;
			m.output_mmr_size = mmr_size_for(if op.ends_with("+1") { max_out + 1 } else { max_out });
		}
		"output_mmr_size-huge" => m.output_mmr_size = (1u64 << 40) - 1,
		"pow-below-target" => {
			// a valid cycle whose hash does not reach the claimed difficulty; impossible while
			// the target is not above the weight of the smallest graph
			let need = (orig.pow.total_difficulty.to_num() - parent.pow.total_difficulty.to_num()) as u128;
			if !remined || need <= Net::Auto.weight0(10) {
				return None;
			}
			solve(&mut m, need, 0, true);
			return Some(m);
		}
		_ => panic!("unknown op {}", op),
	}
	if remined {
		// redo the proof of work for the header as it now stands, at the difficulty it claims
		// over the genuine parent (0 = any cycle)
		let need = m.pow.total_difficulty.to_num().saturating_sub(parent.pow.total_difficulty.to_num());
		let start = if op == "nonce+1" { m.pow.nonce } else { 0 };
		solve(&mut m, need as u128, start, false);
	}
	Some(m)
}

/// generator-side miner: the repo's cycle finder, difficulty judged by the reference;
/// `weak`: look for a cycle that does NOT reach `need`
fn solve(h: &mut BlockHeader, need: u128, start_nonce: u64, weak: bool) {
	let eb = h.pow.proof.edge_bits;
	h.pow.nonce = start_nonce;
	loop {
		let mut ctx = global::create_pow_context::<u32>(h.height, eb, AUTO_PROOFSIZE, 10).expect("pow ctx");
		ctx.set_header_nonce(h.pre_pow(), None, true).expect("set_header_nonce");
		if let Ok(proofs) = ctx.find_cycles() {
			for p in proofs {
				h.pow.proof = Proof {
					edge_bits: eb,
					nonces: p.nonces,
				};
				let reached = eb < 10 || ref_pow_difficulty(Net::Auto, &rh(h)) >= need;
				if reached != weak {
					return;
				}
			}
		}
		h.pow.nonce += 1;
	}
}

#[derive(Clone, Debug, PartialEq, Eq)]
struct Fp {
	header_head: (String, u64, u64),
	head: (String, u64, u64),
	mmr_size: u64,
	mmr_root: String,
}

fn fp(chain: &Chain) -> Fp {
	let hh = chain.header_head().expect("header_head");
	let hd = chain.head().expect("head");
	let pm = chain.header_pmmr();
	let g = pm.read();
	let root = ReadonlyPMMR::at(&g.backend, g.size)
		.root()
		.map(|r| hex(r.as_bytes()))
		.unwrap_or_else(|e| format!("err:{}", e));
	Fp {
		header_head: (hex(hh.last_block_h.as_bytes()), hh.height, hh.total_difficulty.to_num()),
		head: (hex(hd.last_block_h.as_bytes()), hd.height, hd.total_difficulty.to_num()),
		mmr_size: g.size,
		mmr_root: root,
	}
}

fn err_class<E: std::fmt::Debug>(e: &E) -> String {
	let s = format!("{:?}", e);
	let head: String = s.chars().take_while(|c| c.is_alphanumeric()).collect();
	if head == "Block" {
		let inner: String = s[head.len()..].chars().skip(1).take_while(|c| c.is_alphanumeric()).collect();
		return format!("Block({})", inner);
	}
	head
}

struct CaseId<'a> {
	u: &'a Universe,
	h: u64,
	op: &'a str,
	remined: bool,
}

impl<'a> CaseId<'a> {
	fn json(&self, e: Entry, cand: &BlockHeader) -> Value {
		let k = if let Entry::Sync(k) = e { k } else { 0 };
		json!({
			"part": "headers", "pattern": self.u.pattern, "height": self.h, "op": self.op,
			"remined": self.remined, "entry": e.name(), "batch_len": k,
			"header_hex": hex(&ser::ser_vec(cand, ProtocolVersion::local()).unwrap_or_default()),
		})
	}
	fn variant(&self) -> &'static str {
		if self.remined {
			"remined"
		} else {
			"raw"
		}
	}
}

fn now_ns() -> i128 {
	let n = Utc::now();
	n.timestamp() as i128 * 1_000_000_000 + n.timestamp_subsec_nanos() as i128
}

/// decode as an untrusted (network) header; returns false if the clock made the verdict
/// ambiguous (caller regenerates)
fn run_read(r: &mut Report, id: &CaseId, cand: &BlockHeader) -> bool {
	use grin_core::core::{CompactBlock, TransactionBody, UntrustedBlock, UntrustedCompactBlock};
	let c = rh(cand);
	// the header alone, and carried by a full block and by a compact block (empty bodies, which pass every
	// read-time body check): all three are read from the network and must apply the same header rules
	let empty_block = Block { header: cand.clone(), body: TransactionBody::empty() };
	let wrappers: Vec<(&str, Vec<u8>)> = vec![
		("header", ser::ser_vec(cand, ProtocolVersion::local()).expect("ser header")),
		("block", ser::ser_vec(&empty_block, ProtocolVersion::local()).expect("ser block")),
		("compact_block", ser::ser_vec(&CompactBlock::from(empty_block.clone()), ProtocolVersion::local()).expect("ser compact block")),
	];
	for (wname, bytes) in wrappers {
		let before = now_ns();
		let got: Result<BlockHeader, ser::Error> = match wname {
			"header" => ser::deserialize::<UntrustedBlockHeader, _>(&mut &bytes[..], ProtocolVersion::local(), DeserializationMode::default()).map(BlockHeader::from),
			"block" => ser::deserialize::<UntrustedBlock, _>(&mut &bytes[..], ProtocolVersion::local(), DeserializationMode::default()).map(|b| Block::from(b).header),
			_ => ser::deserialize::<UntrustedCompactBlock, _>(&mut &bytes[..], ProtocolVersion::local(), DeserializationMode::default()).map(|b| CompactBlock::from(b).header),
		};
		let after = now_ns();
		let (e1, e2) = (ref_rules_read(Net::Auto, &c, before), ref_rules_read(Net::Auto, &c, after));
		if e1 != e2 {
			return false;
		}
		r.evaluations += 1;
		r.distinct += 1;
		let cls = match &got {
			Ok(_) => "accept".to_string(),
			Err(e) => format!("reject:{}", err_class(e)),
		};
		r.outcome(&format!("untrusted_read:{}:{}", wname, cls));
		if wname == "header" {
			for rule in &e1 {
				r.outcome(&format!("ref-read:{}", rule));
			}
		}
		let mut case = id.json(Entry::Read, cand);
		case["wrapper"] = serde_json::json!(wname);
		let sfx = if wname == "header" { String::new() } else { format!(":in-{}", wname) };
		match (got, e1.is_empty()) {
			(Ok(_), false) => r.violation(
				format!("read:accepted-invalid:{}:{}{}", id.op, id.variant(), sfx),
				format!("reading an untrusted {} accepted a header (height {}, {}, {}) violating {:?}", wname, id.h, id.op, id.variant(), e1),
				case,
			),
			(Err(e), true) => r.violation(
				format!("read:rejected-valid:{}:{}{}", id.op, id.variant(), sfx),
				format!("reading an untrusted {} refused ({:?}) a header (height {}, {}, {}) that obeys every read-time rule", wname, e, id.h, id.op, id.variant()),
				case,
			),
			(Ok(back), true) => {
				if &back != cand {
					r.violation("read:roundtrip", format!("decoded header differs from the encoded one (height {}, {}, as {})", id.h, id.op, wname), case);
				}
			}
			_ => {}
		}
	}
	true
}

/// offer `cand` through a pipeline entry point on a fresh copy of the right state
fn run_pipeline(r: &mut Report, id: &CaseId, cand: &BlockHeader, e: Entry) {
	let u = id.u;
	let h = id.h;
	let k = if let Entry::Sync(k) = e { k } else { 1 };
	let base = (h - k) as usize;
	let dir = u.sc.fresh("case");
	uni::copy_dir(&u.snaps[base], &dir);
	let chain = uni::open_chain(&dir, &u.gen);
	let mut known = Known::default();
	for j in 0..=base {
		known.add(&u.rhs[j]);
	}
	// the sibling of the parent is a known block when it can be (its own parent is in the state)
	if id.op == "prev_hash=sibling" && k == 1 {
		if let Some(s) = &u.sibs[h as usize - 1] {
			let ok = catch_unwind(AssertUnwindSafe(|| chain.process_block(s.clone(), Options::NONE)));
			if !matches!(ok, Ok(Ok(_))) {
				r.violation("headers:rejected-valid:sibling-block", format!("the valid sibling block at height {} was refused or panicked", h - 1), id.json(e, cand));
				return;
			}
			known.add(&rh(&s.header));
		}
	}
	if e == Entry::BlockKnown || e == Entry::SyncKnown {
		let genuine = u.blocks[h as usize].header.clone();
		let ok = catch_unwind(AssertUnwindSafe(|| chain.process_block_header(&genuine, Options::NONE)));
		if !matches!(ok, Ok(Ok(_))) {
			r.violation("headers:rejected-valid:genuine-header-first", format!("the genuine header at height {} was refused or panicked", h), id.json(e, cand));
			return;
		}
	}
	let pre = fp(&chain);
	// reference verdict
	let mut batch: Vec<BlockHeader> = vec![];
	for j in base + 1..h as usize {
		batch.push(u.blocks[j].header.clone());
	}
	batch.push(cand.clone());
	let mut violated: Vec<&'static str> = vec![];
	let mut kn = known.clone();
	for (i, bh) in batch.iter().enumerate() {
		let c = rh(bh);
		let v = ref_rules_pipeline(Net::Auto, &kn, &c);
		if !v.is_empty() {
			if i + 1 != batch.len() {
				panic!("reference refuses the genuine header at height {}: {:?}", bh.height, v);
			}
			violated = v;
			break;
		}
		kn.add(&c);
	}
	let call = catch_unwind(AssertUnwindSafe(|| -> Result<(), String> {
		match e {
			Entry::Pbh => chain.process_block_header(cand, Options::NONE).map_err(|e| err_class(&e)),
			Entry::Sync(_) | Entry::SyncKnown => {
				let sh = chain.header_head().expect("header_head");
				chain.sync_block_headers(&batch, sh, Options::NONE).map(|_| ()).map_err(|e| err_class(&e))
			}
			Entry::Block | Entry::BlockKnown => {
				let mut b = u.blocks[h as usize].clone();
				b.header = cand.clone();
				chain.process_block(b, Options::NONE).map(|_| ()).map_err(|e| err_class(&e))
			}
			Entry::Read => unreachable!(),
		}
	}));
	let res = match call {
		Ok(x) => x,
		Err(_) => {
			r.evaluations += 1;
			r.outcome(&format!("{}:panic", e.name()));
			r.violation(
				format!("headers:panic:{}", e.name()),
				format!("{} panicked: height {} {} {} (batch of {}, chain '{}')", e.name(), h, id.op, id.variant(), k, u.pattern),
				id.json(e, cand),
			);
			return;
		}
	};
	let post = fp(&chain);
	r.evaluations += 1;
	r.distinct += 1;
	r.transitions += 1;
	let cls = match &res {
		Ok(_) => "accept".to_string(),
		Err(c) => format!("reject:{}", c),
	};
	r.outcome(&format!("{}:{}", e.name(), cls));
	for rule in &violated {
		r.outcome(&format!("ref:{}", rule));
	}
	if violated.is_empty() {
		r.outcome("ref:accept");
	}
	let case = id.json(e, cand);
	let what = format!("height {} {} {} via {} (batch of {}, chain '{}')", h, id.op, id.variant(), e.name(), k, u.pattern);
	match (&res, violated.is_empty()) {
		(Ok(_), false) => r.violation(
			format!("headers:accepted-invalid:{}:{}:{}", id.op, id.variant(), e.name()),
			format!("accepted a header violating {:?}: {}", violated, what),
			case.clone(),
		),
		(Err(c), true) => r.violation(
			format!("headers:rejected-valid:{}:{}:{}", id.op, id.variant(), e.name()),
			format!("refused ({}) a header that obeys every rule: {}", c, what),
			case.clone(),
		),
		_ => {}
	}
	match &res {
		Err(_) => {
			if post != pre {
				r.violation(
					format!("headers:reject-changed-state:{}", e.name()),
					format!("a refused header changed header_head / header MMR: {:?} -> {:?}: {}", pre, post, what),
					case.clone(),
				);
			}
			// (after header-first delivery the genuine header, which a raw candidate shares its hash
			// with, is rightly in the store)
			if e != Entry::BlockKnown && e != Entry::SyncKnown && batch.iter().any(|b| chain.get_block_header(&b.hash()).is_ok()) {
				r.violation(
					format!("headers:reject-stored:{}", e.name()),
					format!("a header of a refused delivery is retrievable from the store: {}", what),
					case.clone(),
				);
			}
		}
		Ok(_) => {
			// header_head is the candidate, the header MMR is the ancestors' MMR plus the candidate
			let c = rh(cand);
			let line = kn.line(&c.prev_hash);
			let (root, size) = Known::mmr_root_of(&line, Some(&c));
			let want_hh = (hex(&c.hash()), c.height, c.td);
			let mut ok = post.header_head == want_hh && post.mmr_size == size && post.mmr_root == hex(&root);
			if e == Entry::BlockKnown {
				// the genuine header of equal work came first and keeps header_head and the MMR;
				// the accepted block becomes the body head
				ok = post.head == want_hh;
			} else if e == Entry::SyncKnown {
				// the genuine header of equal work came first and keeps header_head and the MMR
				ok = post == pre;
			} else if e == Entry::Block {
				ok = ok && post.head == want_hh;
			} else {
				ok = ok && post.head == pre.head;
			}
			if !ok {
				r.violation(
					format!("headers:accept-wrong-state:{}", e.name()),
					format!("after acceptance header_head/MMR/head = {:?}, expected head {:?} size {} root {}: {}", post, want_hh, size, hex(&root), what),
					case.clone(),
				);
			}
		}
	}
	if r.samples.len() < 4 && (id.op == "total_difficulty+1" || id.op == "ts=parent+1") && e == Entry::Pbh {
		r.sample(json!({"pattern": u.pattern, "height": h, "op": id.op, "variant": id.variant(), "entry": e.name(),
			"result": cls, "reference_violated": violated, "header_head_after": post.header_head.1}));
	}
	drop(chain);
	let _ = std::fs::remove_dir_all(&dir);
}

fn entries_for(h: u64, op: &str, tier: Tier) -> Vec<Entry> {
	let mut v = vec![Entry::Pbh];
	// a header claiming more outputs/kernels than the genuine body holds can be a valid
	// header, but the genuine body no longer matches it: no full-block delivery
	if !op.ends_with("-heaviest-allowed") {
		v.push(Entry::Block);
	}
	// the candidate as the last of a batch of k headers on a chain that knows the first
	// h-k blocks: every k (thorough); k = 1, 2, 3 and the whole chain from genesis (quick)
	for k in 1..=h {
		if tier == Tier::Thorough || k <= 3 || k == h {
			v.push(Entry::Sync(k));
		}
	}
	v
}

/// all entry points for one (height, op, variant)
fn run_tuple(r: &mut Report, u: &Universe, h: u64, op: &str, remined: bool, tier: Tier, only: Option<(&str, u64)>) -> bool {
	let id = CaseId { u, h, op, remined };
	let mut cand = None;
	for _attempt in 0..5 {
		let c = match mutate(u, h, op, remined, Utc::now().timestamp()) {
			Some(c) => c,
			None => return false,
		};
		if let Some((name, _)) = only {
			if name != Entry::Read.name() {
				cand = Some(c);
				break;
			}
		}
		// the read entry first: its verdict depends on the clock
		let mut tmp = Report::new();
		if run_read(&mut tmp, &id, &c) {
			r.merge(tmp);
			cand = Some(c);
			break;
		}
	}
	let cand = match cand {
		Some(c) => c,
		None => {
			r.notes.push(format!("clock straddled the future-time limit five times for height {} {}", h, op));
			return true;
		}
	};
	let mut entries = entries_for(h, op, tier);
	if !remined && entries.contains(&Entry::Block) {
		entries.push(Entry::BlockKnown);
	}
	if !remined {
		entries.push(Entry::SyncKnown);
	}
	for e in entries {
		if let Some((name, k)) = only {
			let ek = if let Entry::Sync(k) = e { k } else { 0 };
			if name != e.name() || k != ek {
				continue;
			}
		}
		run_pipeline(r, &id, &cand, e);
	}
	true
}

fn headers(tier: Tier, shard: usize, nsh: usize) -> Report {
	let mut r = Report::new();
	uni::init_thread();
	global::set_local_future_time_limit(R_FTL as u64);
	let npat = tier.pick(1, 3);
	let mut t = 0u64;
	let mut na = 0u64;
	let mut iter_total = 0u64;
	for p in 0..npat {
		let mut uni_: Option<Universe> = None;
		for h in 1..=CHAIN_LEN {
			for op in OPS.iter() {
				for remined in [false, true] {
					let mine_ = mine(t, shard, nsh);
					t += 1;
					if !mine_ {
						continue;
					}
					if uni_.is_none() {
						match build_universe(p) {
							Ok(u) => {
								if shard == 0 {
									r.extra.insert(format!("chain_{}", u.pattern), u.describe());
									r.evaluations += u.iter_items;
									r.outcome("difficulty-iter:equal");
									iter_total += u.iter_items;
								}
								uni_ = Some(u);
							}
							Err(f) => {
								r.evaluations += 1;
								r.outcome("genuine-chain:refused");
								r.violation(f.key, f.what, f.case);
								return r;
							}
						}
					}
					let u = uni_.as_ref().unwrap();
					if !run_tuple(&mut r, u, h, op, remined, tier, None) {
						na += 1;
					}
				}
			}
		}
	}
	r.states = r.transitions;
	r.extra.insert("tuples_not_applicable".into(), json!(na));
	r.extra.insert("difficulty_iter_items_checked".into(), json!(iter_total));
	r.extra.insert("bound_chain_length".into(), json!(CHAIN_LEN));
	r.extra.insert("bound_operators".into(), json!(OPS.len()));
	r.extra.insert("bound_chains".into(), json!(npat));
	r
}

impl Engine for C04 {
	fn id(&self) -> &'static str {
		"C04"
	}
	fn meta(&self, _tier: Tier) -> Meta {
		Meta {
			level: "exploration",
			rule: "exhaustive enumeration. headers: every height 1..16 of each explored real-PoW chain x every operator of the closed single-field mutation catalogue x {raw, re-mined} x {process_block_header, process_block, process_block after the genuine header of that height was accepted header-first (raw candidates, which keep the genuine proof and therefore the genuine hash), sync_block_headers with the candidate last in a batch of every length 1..height (quick: lengths 1, 2, 3 and height), UntrustedBlockHeader::read}; a case is one (chain, height, operator, variant, entry point, batch length). retarget: every window of 61 entries that differs from the regular baseline (dt 60 s, difficulty d0 in {min, 1000, 2^40}, on-target secondary pattern) in at most the stated number of (position, field) deviations from the closed deviation set, for every chain type and a start/end height of every hard-fork era; retarget-short: every height 1..60 with its n = height real entries and pre-genesis padding, same deviation sets; schedule: header_version / valid_header_version / graph_weight at every fork or phase-out boundary +-2 on every chain type; all generated cases are distinct by construction",
			assumptions: vec![
				"blake2b-256 (blake2-rfc crate) is the hash; the reference serialises headers, packs proofs, derives siphash keys, checks the Cuckatoo cycle and builds the header MMR itself".into(),
				"retarget domain: windows a valid chain can produce (strictly increasing timestamps, per-block difficulty <= 10 * 2^40, secondary scaling within +-1 of the unit scaling or at its minimum); outside it (timestamp subtraction, u64 products, the u32 cast of the scaling) the function is not claimed total".into(),
				"pre-genesis padding follows the in-code description (simulated blocks repeat the newest block's time step and difficulty, unit scaling, secondary flag set); no independent specification exists for it".into(),
				"rules beyond the property text that the reference also applies (from the anchored code's documented intent): at least one new output and kernel, block weight lower bound <= max block weight, cumulative size bound at read time".into(),
				"edge_bits = 29 and proof-nonce mutations exist only as raw variants (a 29-bit graph cannot be mined here; re-mining replaces the proof)".into(),
				"the future-time-limit cases depend on the wall clock; a case is regenerated when the clock crosses the limit during the call".into(),
			],
			exhaustive: true,
		}
	}
	fn parts(&self, _tier: Tier) -> Vec<(&'static str, usize)> {
		vec![("headers", 16), ("retarget", 16), ("retarget-short", 16), ("schedule", 1)]
	}
	fn run_part(&self, part: &str, tier: Tier, shard: usize, n: usize) -> Report {
		match part {
			"headers" => headers(tier, shard, n),
			"retarget" => retarget(tier, false, shard, n),
			"retarget-short" => retarget(tier, true, shard, n),
			"schedule" => schedule(tier),
			_ => panic!("unknown part"),
		}
	}
	fn replay(&self, case: &Value) -> Result<String, String> {
		uni::init_thread();
		match case["part"].as_str() {
			Some("retarget") => {
				let net = Net::from_name(case["net"].as_str().unwrap_or("mainnet"));
				let height = case["height"].as_u64().unwrap_or(0);
				let w: Vec<Wd> = case["window_newest_first"]
					.as_array()
					.map(|a| {
						a.iter()
							.map(|e| Wd {
								ts: e[0].as_u64().unwrap_or(0),
								diff: e[1].as_str().and_then(|s| s.parse().ok()).unwrap_or(0),
								scal: e[2].as_u64().unwrap_or(0) as u32,
								sec: e[3].as_bool().unwrap_or(false),
							})
							.collect()
					})
					.unwrap_or_default();
				global::set_local_chain_type(net.chain_type());
				let got = catch_unwind(AssertUnwindSafe(|| consensus::next_difficulty(height, w.iter().map(hdi))));
				uni::init_thread();
				let exp = ref_next(net, height, &w);
				match got {
					Err(_) => Err(format!("next_difficulty({}) panicked", height)),
					Ok(g) => {
						let (gd, gs) = (g.difficulty.to_num() as u128, g.secondary_scaling as u128);
						let s = format!("difficulty {} scaling {} (reference {} / {}, bounds [{}, {}])", gd, gs, exp.diff, exp.scal, exp.lo, exp.hi);
						if gd != exp.diff || gs != exp.scal || gd < exp.lo || gd > exp.hi {
							Err(s)
						} else {
							Ok(s)
						}
					}
				}
			}
			Some("headers") => {
				global::set_local_future_time_limit(R_FTL as u64);
				let pname = case["pattern"].as_str().unwrap_or("bursts");
				let p = PATTERNS.iter().position(|(n, _)| *n == pname).unwrap_or(0);
				let u = match build_universe(p) {
					Ok(u) => u,
					Err(f) => return Err(format!("{} :: {}", f.key, f.what)),
				};
				let h = case["height"].as_u64().unwrap_or(1);
				let op = case["op"].as_str().unwrap_or("identity");
				let op = OPS.iter().find(|o| **o == op).ok_or("unknown op")?;
				let remined = case["remined"].as_bool().unwrap_or(false);
				let entry = case["entry"].as_str().unwrap_or("process_block_header");
				let k = case["batch_len"].as_u64().unwrap_or(0);
				let mut r = Report::new();
				run_tuple(&mut r, &u, h, op, remined, Tier::Thorough, Some((entry, k)));
				let outs: Vec<String> = r.outcomes.keys().cloned().collect();
				match r.violations.first() {
					Some(v) => Err(format!("{} :: {}", v.key, v.what)),
					None => Ok(format!("holds; outcomes {:?}", outs)),
				}
			}
			Some("schedule") => {
				let net = Net::from_name(case["net"].as_str().unwrap_or("mainnet"));
				let h = case["height"].as_u64().unwrap_or(0);
				global::set_local_chain_type(net.chain_type());
				let got = consensus::header_version(h).0;
				let gw: Vec<u64> = (net.base_edge_bits()..net.base_edge_bits() + 10).map(|eb| consensus::graph_weight(h, eb)).collect();
				uni::init_thread();
				let s = format!("header_version({}) = {} (schedule {}), graph weights {:?}", h, got, net.version(h), gw);
				if got != net.version(h) {
					Err(s)
				} else {
					Ok(s)
				}
			}
			_ => Ok(format!("no replay for {}", case)),
		}
	}
}

