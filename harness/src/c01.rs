//! C01 — No value is created: accepted transactions and blocks balance.
//!
//! Part `objects` (C01i): bodies are built from *openings* the harness chooses (values, blinding
//! factors, excess keys, who signed what, which proof was made for which opening). The real
//! objects are forged from the openings, the verdict of the real code is compared with a
//! reference that works on the openings only (u64 / scalar-mod-n arithmetic, no commitments).
//! Part `histories` (C01h): every visited state of the C02 fork universes must validate, store
//! per-block running sums equal to the sums recomputed from the reference ledger, and carry a
//! total kernel offset that closes the full-state equation.
use crate::c02;
use crate::chainx::{case_json, err_class, guarded, Ev, Explorer, Invariant, Live, Outcome};
use crate::ev::{hex, Report, Tier};
use crate::fp::Fp;
use crate::ledger::{InputCommits, Tree};
use crate::par::mine;
use crate::uni::{self, REWARD};
use crate::{Engine, Meta};
use chrono::Duration;
use grin_chain::store::DifficultyIter;
use grin_chain::types::Options;
use grin_chain::Chain;
use grin_core::consensus;
use grin_core::core::hash::Hashed;
use grin_core::core::{
	Block, BlockHeader, FeeFields, Input, Inputs, KernelFeatures, NRDRelativeHeight, Output,
	OutputFeatures, Transaction, TransactionBody, TxKernel, Weighting,
};
use grin_core::global;
use grin_core::libtx::aggsig;
use grin_keychain::{BlindingFactor, ExtKeychain, Keychain, SwitchCommitmentType};
use grin_util::secp::key::SecretKey;
use grin_util::secp::pedersen::{Commitment, RangeProof};
use grin_util::static_secp_instance;
use serde_json::{json, Value};
use std::collections::{BTreeMap, HashMap, HashSet};
use std::path::PathBuf;

pub struct C01;

// ---------------------------------------------------------------------------------------------
// Scalars modulo the group order n (plain Rust; the reference never asks secp to add anything)

type Sc = [u8; 32];
const ZERO: Sc = [0u8; 32];
/// n, little-endian 64-bit limbs
const N: [u64; 4] = [
	0xBFD2_5E8C_D036_4141,
	0xBAAE_DCE6_AF48_A03B,
	0xFFFF_FFFF_FFFF_FFFE,
	0xFFFF_FFFF_FFFF_FFFF,
];

fn limbs(a: &Sc) -> [u64; 4] {
	let mut l = [0u64; 4];
	for (i, item) in l.iter_mut().enumerate() {
		let mut x = 0u64;
		for j in 0..8 {
			x = (x << 8) | a[(3 - i) * 8 + j] as u64;
		}
		*item = x;
	}
	l
}

fn unlimbs(l: &[u64; 4]) -> Sc {
	let mut a = [0u8; 32];
	for i in 0..4 {
		for j in 0..8 {
			a[(3 - i) * 8 + j] = (l[i] >> (8 * (7 - j))) as u8;
		}
	}
	a
}

fn geq(a: &[u64; 4], b: &[u64; 4]) -> bool {
	for i in (0..4).rev() {
		if a[i] != b[i] {
			return a[i] > b[i];
		}
	}
	true
}

fn add_raw(a: &[u64; 4], b: &[u64; 4]) -> ([u64; 4], bool) {
	let mut r = [0u64; 4];
	let mut c = 0u128;
	for i in 0..4 {
		let s = a[i] as u128 + b[i] as u128 + c;
		r[i] = s as u64;
		c = s >> 64;
	}
	(r, c != 0)
}

fn sub_raw(a: &[u64; 4], b: &[u64; 4]) -> ([u64; 4], bool) {
	let mut r = [0u64; 4];
	let mut borrow = 0i128;
	for i in 0..4 {
		let mut d = a[i] as i128 - b[i] as i128 - borrow;
		if d < 0 {
			d += 1i128 << 64;
			borrow = 1;
		} else {
			borrow = 0;
		}
		r[i] = d as u64;
	}
	(r, borrow != 0)
}

fn sc_add(a: &Sc, b: &Sc) -> Sc {
	let (mut s, c) = add_raw(&limbs(a), &limbs(b));
	if c || geq(&s, &N) {
		s = sub_raw(&s, &N).0;
	}
	unlimbs(&s)
}

fn sc_sub(a: &Sc, b: &Sc) -> Sc {
	let (mut d, borrow) = sub_raw(&limbs(a), &limbs(b));
	if borrow {
		d = add_raw(&d, &N).0;
	}
	unlimbs(&d)
}

fn sc_u64(x: u64) -> Sc {
	unlimbs(&[x, 0, 0, 0])
}

fn sc_sum<'a>(it: impl Iterator<Item = &'a Sc>) -> Sc {
	let mut s = ZERO;
	for x in it {
		s = sc_add(&s, x);
	}
	s
}

/// deterministic non-zero scalar below n from a tag
fn sc_tag(tag: &str) -> Sc {
	let mut i = 0u32;
	loop {
		let h = blake2_rfc::blake2b::blake2b(32, &[], format!("gv/c01/{}/{}", tag, i).as_bytes());
		let mut a = [0u8; 32];
		a.copy_from_slice(h.as_bytes());
		if a != ZERO && !geq(&limbs(&a), &N) {
			return a;
		}
		i += 1;
	}
}

// ---------------------------------------------------------------------------------------------
// The model: bodies as openings

const FEE_MASK: u64 = (1u64 << 40) - 1;

/// Kernel features; `fee` is the raw 64-bit fee field (fix-fees RFC: low 40 bits = fee, next 4
/// bits = fee shift, which is a relay priority and carries no value).
#[derive(Clone, Debug, PartialEq, Eq)]
enum MF {
	Plain { fee: u64 },
	Coinbase,
	Locked { fee: u64, lock: u64 },
	Nrd { fee: u64, rel: u16 },
}

impl MF {
	fn raw(&self) -> Option<u64> {
		match self {
			MF::Plain { fee } | MF::Locked { fee, .. } | MF::Nrd { fee, .. } => Some(*fee),
			MF::Coinbase => None,
		}
	}
	/// value the kernel declares as fee
	fn fee(&self) -> u64 {
		self.raw().map(|r| r & FEE_MASK).unwrap_or(0)
	}
	fn with_raw(&self, raw: u64) -> MF {
		match self {
			MF::Plain { .. } => MF::Plain { fee: raw },
			MF::Locked { lock, .. } => MF::Locked { fee: raw, lock: *lock },
			MF::Nrd { rel, .. } => MF::Nrd { fee: raw, rel: *rel },
			MF::Coinbase => MF::Coinbase,
		}
	}
	fn is_cb(&self) -> bool {
		*self == MF::Coinbase
	}
	fn real(&self) -> KernelFeatures {
		let ff = |raw: u64| -> FeeFields {
			if raw == 0 {
				FeeFields::zero()
			} else {
				FeeFields::new((raw >> 40) & 0xf, raw & FEE_MASK).expect("fee fields")
			}
		};
		match self {
			MF::Plain { fee } => KernelFeatures::Plain { fee: ff(*fee) },
			MF::Coinbase => KernelFeatures::Coinbase,
			MF::Locked { fee, lock } => KernelFeatures::HeightLocked { fee: ff(*fee), lock_height: *lock },
			MF::Nrd { fee, rel } => KernelFeatures::NoRecentDuplicate {
				fee: ff(*fee),
				relative_height: NRDRelativeHeight::new(*rel as u64).expect("nrd height"),
			},
		}
	}
}

#[derive(Clone, Debug, PartialEq, Eq)]
struct MOut {
	v: u64,
	r: Sc,
	cb: bool,
	/// the opening the attached range proof was made for
	pv: u64,
	pr: Sc,
}

impl MOut {
	fn new(v: u64, r: Sc, cb: bool) -> MOut {
		MOut { v, r, cb, pv: v, pr: r }
	}
}

#[derive(Clone, Debug, PartialEq, Eq)]
struct MIn {
	v: u64,
	r: Sc,
	cb: bool,
}

/// who signed what
#[derive(Clone, Debug, PartialEq, Eq)]
struct MSig {
	key: Sc,
	feat: MF,
	nonce: u32,
}

#[derive(Clone, Debug, PartialEq, Eq)]
struct MKern {
	feat: MF,
	/// excess = k*G + e*H (e = 0 for every honest kernel)
	k: Sc,
	e: u64,
	sig: MSig,
}

impl MKern {
	fn honest(feat: MF, k: Sc, nonce: u32) -> MKern {
		MKern { feat: feat.clone(), k, e: 0, sig: MSig { key: k, feat, nonce } }
	}
	fn resign(&mut self) {
		self.sig.key = self.k;
		self.sig.feat = self.feat.clone();
	}
}

#[derive(Clone, Debug, PartialEq, Eq)]
struct MBody {
	ins: Vec<MIn>,
	outs: Vec<MOut>,
	kerns: Vec<MKern>,
	/// transaction offset, or the offset this block adds to the running total
	offset: Sc,
	/// corruption: the 32 bytes of the offset field (of the transaction, or of the header's total kernel offset)
	/// are these instead - a byte string that is not a scalar of the group (>= n)
	offset_raw: Option<Sc>,
}

/// The reference balance checker, from the property statement, over the openings only.
fn judge(b: &MBody, as_block: bool) -> Result<(), &'static str> {
	if b.offset_raw.is_some() {
		return Err("the offset field is not a scalar of the group: the equation cannot hold for the offset as stated");
	}
	for o in &b.outs {
		if o.pv != o.v || o.pr != o.r {
			return Err("range proof was made for another commitment");
		}
	}
	for k in &b.kerns {
		if k.e != 0 {
			return Err("excess carries value (nobody can sign under it)");
		}
		if k.sig.key != k.k {
			return Err("kernel signed under another key than its excess");
		}
		if k.sig.feat != k.feat {
			return Err("kernel signature covers another message");
		}
	}
	let vin: i128 = b.ins.iter().map(|i| i.v as i128).sum();
	let vout: i128 = b.outs.iter().map(|o| o.v as i128).sum();
	let fees: i128 = b.kerns.iter().map(|k| k.feat.fee() as i128).sum();
	let r_out = sc_sum(b.outs.iter().map(|o| &o.r));
	let r_in = sc_sum(b.ins.iter().map(|i| &i.r));
	let k_sum = sc_sum(b.kerns.iter().map(|k| &k.k));
	let lhs = sc_sub(&r_out, &r_in);
	let rhs = sc_add(&k_sum, &b.offset);
	if as_block {
		if vout - vin != REWARD as i128 {
			return Err("outputs minus inputs differ from the 60 grin subsidy");
		}
		if lhs != rhs {
			return Err("blinding factors do not sum to excesses plus offset");
		}
		let cbv: i128 = b.outs.iter().filter(|o| o.cb).map(|o| o.v as i128).sum();
		if cbv != REWARD as i128 + fees {
			return Err("coinbase-flagged outputs do not carry exactly subsidy plus fees");
		}
		let cbr = sc_sum(b.outs.iter().filter(|o| o.cb).map(|o| &o.r));
		let cbk = sc_sum(b.kerns.iter().filter(|k| k.feat.is_cb()).map(|k| &k.k));
		if cbr != cbk {
			return Err("coinbase-flagged kernels do not match coinbase-flagged outputs");
		}
	} else {
		if b.outs.iter().any(|o| o.cb) || b.kerns.iter().any(|k| k.feat.is_cb()) {
			return Err("coinbase-flagged element in a transaction");
		}
		if vout + fees - vin != 0 {
			return Err("outputs plus fee differ from inputs");
		}
		if lhs != rhs {
			return Err("blinding factors do not sum to excesses plus offset");
		}
	}
	Ok(())
}

// ---------------------------------------------------------------------------------------------
// Forging real objects from openings

fn sk(s: &Sc) -> SecretKey {
	let secp = static_secp_instance();
	let secp = secp.lock();
	SecretKey::from_slice(&secp, s).expect("scalar is a valid secret key")
}

fn commit(v: u64, r: &Sc) -> Commitment {
	let key = sk(r);
	let secp = static_secp_instance();
	let secp = secp.lock();
	secp.commit(v, key).expect("commit")
}

fn bf(s: &Sc) -> BlindingFactor {
	if *s == ZERO {
		BlindingFactor::zero()
	} else {
		BlindingFactor::from_slice(s)
	}
}

#[derive(Default)]
struct Forge {
	proofs: HashMap<(u64, Sc), RangeProof>,
	made: u64,
}

impl Forge {
	fn proof(&mut self, v: u64, r: &Sc) -> RangeProof {
		if let Some(p) = self.proofs.get(&(v, *r)) {
			return *p;
		}
		let key = sk(r);
		let nonce = sk(&sc_tag(&format!("proof-nonce/{}/{}", v, hex(r))));
		let p = {
			let secp = static_secp_instance();
			let secp = secp.lock();
			secp.bullet_proof(v, key, nonce.clone(), nonce, None, None)
		};
		self.made += 1;
		self.proofs.insert((v, *r), p);
		p
	}
	fn output(&mut self, o: &MOut) -> Output {
		let f = if o.cb { OutputFeatures::Coinbase } else { OutputFeatures::Plain };
		Output::new(f, commit(o.v, &o.r), self.proof(o.pv, &o.pr))
	}
	fn input(&self, i: &MIn) -> Input {
		let f = if i.cb { OutputFeatures::Coinbase } else { OutputFeatures::Plain };
		Input::new(f, commit(i.v, &i.r))
	}
	fn kernel(&self, k: &MKern) -> TxKernel {
		let features = k.feat.real();
		let excess = commit(k.e, &k.k);
		let msg = k.sig.feat.real().kernel_sig_msg().expect("msg");
		let skey = sk(&k.sig.key);
		let nonce = sk(&sc_tag(&format!("sig-nonce/{}/{}", k.sig.nonce, hex(&k.sig.key))));
		let signer_pub = commit(0, &k.sig.key);
		let secp = static_secp_instance();
		let secp = secp.lock();
		let pubkey = signer_pub.to_pubkey(&secp).expect("pubkey");
		let excess_sig = aggsig::sign_single(&secp, &msg, &skey, Some(&nonce), Some(&pubkey)).expect("sign");
		TxKernel { features, excess, excess_sig }
	}
	fn body(&mut self, b: &MBody) -> TransactionBody {
		let ins: Vec<Input> = b.ins.iter().map(|i| self.input(i)).collect();
		let outs: Vec<Output> = b.outs.iter().map(|o| self.output(o)).collect();
		let kerns: Vec<TxKernel> = b.kerns.iter().map(|k| self.kernel(k)).collect();
		TransactionBody::init(Inputs::FeaturesAndCommit(ins), &outs, &kerns, false).expect("body")
	}
	fn tx(&mut self, b: &MBody) -> Transaction {
		Transaction { offset: match &b.offset_raw { Some(raw) => BlindingFactor::from_slice(raw), None => bf(&b.offset) }, body: self.body(b) }
	}
}

// ---------------------------------------------------------------------------------------------
// The world: a real 9-block chain whose every opening is known

const BASE_HEIGHT: u64 = 9;
const SEED: u8 = 21;

struct World {
	wv: usize,
	gen: Block,
	/// closed chain directory holding blocks 1..=9
	base: PathBuf,
	prev: BlockHeader,
	/// total kernel offset committed to by block 9, from the openings
	prev_total: Sc,
	/// coinbase openings by height (index 0 = genesis)
	cb: Vec<(u64, Sc)>,
	/// plain output created at height 5 (variant 0 only)
	p: Option<(u64, Sc)>,
	/// sum of blinding factors of everything unspent at block 9 / of all kernel keys up to block 9
	r_unspent: Sc,
	k_all: Sc,
}

const FEE0: u64 = 5_000_000;

impl World {
	/// variant 0: block 5 spends coinbase 1 with a non-zero offset (running total != 0);
	/// variant 1: nine empty blocks (running total 0)
	fn build(sc: &uni::Scratch, wv: usize, forge: &mut Forge) -> World {
		let kc = uni::keychain(SEED);
		let gen = uni::genesis(&kc);
		let dir = sc.fresh("world");
		let chain = uni::open_chain(&dir, &gen);
		let derive = |v: u64, id: &grin_keychain::Identifier| -> Sc {
			kc.derive_key(v, id, SwitchCommitmentType::Regular).expect("derive").0
		};
		let mut cb: Vec<(u64, Sc)> = vec![(REWARD, derive(REWARD, &ExtKeychain::derive_key_id(0, 1, 0, 0, 0)))];
		for h in 1..=BASE_HEIGHT {
			let v = if h == 5 && wv == 0 { REWARD + FEE0 } else { REWARD };
			cb.push((v, derive(v, &uni::kid(h as u32))));
		}
		assert_eq!(commit(REWARD, &cb[2].1), uni::commit_of(&kc, 2, REWARD), "coinbase opening");
		assert_eq!(commit(REWARD, &cb[0].1), gen.outputs()[0].commitment(), "genesis opening");
		let p = if wv == 0 { Some((REWARD - FEE0, sc_tag("world/P"))) } else { None };
		let mut prev = gen.header.clone();
		let mut prev_total = ZERO;
		let mut k_all = sc_sum(cb.iter().map(|c| &c.1));
		let mut r_unspent = k_all;
		for h in 1..=BASE_HEIGHT {
			let mut txs = vec![];
			if h == 5 && wv == 0 {
				let (pv, pr) = p.unwrap();
				let off = sc_tag("world/offset");
				let k = sc_sub(&sc_sub(&pr, &cb[1].1), &off);
				let m = MBody {
					ins: vec![MIn { v: REWARD, r: cb[1].1, cb: true }],
					outs: vec![MOut::new(pv, pr, false)],
					kerns: vec![MKern::honest(MF::Plain { fee: FEE0 }, k, 900)],
					offset: off,
					offset_raw: None,
				};
				assert!(judge(&m, false).is_ok());
				txs.push(forge.tx(&m));
				prev_total = off;
				k_all = sc_add(&k_all, &k);
				r_unspent = sc_add(&sc_sub(&r_unspent, &cb[1].1), &pr);
			}
			let b = uni::extend(&chain, &kc, &prev, &uni::BlockSpec::with(h as u32, txs));
			prev = b.header.clone();
		}
		drop(chain);
		World { wv, gen, base: dir, prev, prev_total, cb, p, r_unspent, k_all }
	}

	fn open_copy(&self, sc: &uni::Scratch) -> (PathBuf, Chain) {
		let d = sc.fresh("c");
		uni::copy_dir(&self.base, &d);
		let c = uni::open_chain(&d, &self.gen);
		(d, c)
	}

	/// the real block at height 10 carrying the model body (roots from the chain, real PoW)
	fn block(&self, chain: &Chain, forge: &mut Forge, m: &MBody, salt: u64) -> (Block, bool) {
		let prev = &self.prev;
		let next = consensus::next_difficulty(prev.height + 1, DifficultyIter::from(prev.hash(), chain.store()));
		let mut header = BlockHeader::default();
		header.height = prev.height + 1;
		header.version = consensus::header_version(header.height);
		header.timestamp = prev.timestamp + Duration::seconds(60 + (salt % 40) as i64);
		header.prev_hash = prev.hash();
		header.total_kernel_offset = match &m.offset_raw {
			Some(raw) => BlindingFactor::from_slice(raw),
			None => bf(&sc_add(&self.prev_total, &m.offset)),
		};
		header.pow.total_difficulty = prev.pow.total_difficulty + next.difficulty;
		header.pow.secondary_scaling = next.secondary_scaling;
		let mut b = Block { header, body: forge.body(m) };
		let rooted = chain.set_txhashset_roots(&mut b).is_ok();
		if !rooted {
			// cannot be applied even read-only: plausible sizes so that the header rules pass
			b.header.output_mmr_size = crate::chainx::refmmr_size(prev.output_mmr_count() + b.outputs().len() as u64);
			b.header.kernel_mmr_size = crate::chainx::refmmr_size(prev.kernel_mmr_count() + b.kernels().len() as u64);
			let _ = chain.set_prev_root_only(&mut b.header);
		}
		uni::remine(&mut b, prev);
		(b, rooted)
	}
}

// ---------------------------------------------------------------------------------------------
// Shapes and the corruption catalogue

#[derive(Clone, Copy, Debug, PartialEq, Eq)]
struct Shape {
	wv: usize,
	ni: usize,
	no: usize,
	nk: usize,
	/// 0 Plain, 1 HeightLocked, 2 NoRecentDuplicate
	variant: usize,
	off: bool,
}

impl Shape {
	fn json(&self) -> Value {
		let variant = ["Plain", "HeightLocked", "NoRecentDuplicate"][self.variant];
		json!({"world": self.wv, "inputs": self.ni, "outputs": self.no, "kernels": self.nk, "variant": variant, "offset": self.off})
	}
	fn from_json(v: &Value) -> Option<Shape> {
		let variant = match v["variant"].as_str()? {
			"Plain" => 0,
			"HeightLocked" => 1,
			"NoRecentDuplicate" => 2,
			_ => return None,
		};
		Some(Shape {
			wv: v["world"].as_u64()? as usize,
			ni: v["inputs"].as_u64()? as usize,
			no: v["outputs"].as_u64()? as usize,
			nk: v["kernels"].as_u64()? as usize,
			variant,
			off: v["offset"].as_bool()?,
		})
	}
}

/// quick: (inputs 0-2) x (outputs 1-3) x (kernels 1-2) x offset {0, k}, kernel variant rotating
/// (36 shapes); thorough: the full product with the three variants, on both worlds (216 shapes)
fn shapes(tier: Tier) -> Vec<Shape> {
	let mut v = vec![];
	let worlds = tier.pick(1, 2);
	for wv in 0..worlds {
		let mut idx = 0;
		for ni in 0..=2 {
			for no in 1..=3 {
				for nk in 1..=2 {
					for off in [false, true] {
						for variant in 0..3 {
							if tier == Tier::Quick && variant != idx % 3 {
								continue;
							}
							v.push(Shape { wv, ni, no, nk, variant, off });
						}
						idx += 1;
					}
				}
			}
		}
	}
	// wide bodies: kernel counts around the sizes at which an implementation may batch its
	// signature verification (every corruption is applied at every one of the kernels, so each
	// position of the sorted kernel list is covered)
	// (60 kernels is the most that leaves room, within the AutomatedTesting block weight of 250, for
	// the heaviest corruption - an extra coinbase output with its kernel; the reference does not
	// model weight, so bodies that a corruption would push over the limit are not generated)
	let wide: Vec<usize> = if tier == Tier::Quick { vec![33] } else { vec![31, 32, 33, 34, 60] };
	for nk in wide {
		v.push(Shape { wv: 0, ni: 1, no: 1, nk, variant: 0, off: nk % 2 == 0 });
	}
	v
}

fn base_tx(w: &World, s: &Shape) -> MBody {
	let mut ins = vec![];
	if s.ni >= 1 {
		ins.push(MIn { v: w.cb[2].0, r: w.cb[2].1, cb: true });
	}
	if s.ni >= 2 {
		match w.p {
			Some((v, r)) => ins.push(MIn { v, r, cb: false }),
			None => ins.push(MIn { v: w.cb[3].0, r: w.cb[3].1, cb: true }),
		}
	}
	let total_in: u64 = ins.iter().map(|i| i.v).sum();
	let fees: Vec<u64> = (0..s.nk).map(|i| if s.ni == 0 { 0 } else { (i as u64 + 1) * 2_000_000 + 7 }).collect();
	let f: u64 = fees.iter().sum();
	let rem = total_in - f;
	let mut outs = vec![];
	let mut given = 0u64;
	for j in 0..s.no {
		let v = if s.ni == 0 {
			0
		} else if j + 1 == s.no {
			rem - given
		} else {
			rem / (s.no as u64 + 1) + 1000 * j as u64
		};
		given += v;
		outs.push(MOut::new(v, sc_tag(&format!("out/{}", j)), false));
	}
	let offset = if s.off { sc_tag("offset") } else { ZERO };
	let r_out = sc_sum(outs.iter().map(|o| &o.r));
	let r_in = sc_sum(ins.iter().map(|i| &i.r));
	let mut rest = sc_sub(&sc_sub(&r_out, &r_in), &offset);
	let mut kerns = vec![];
	for i in 0..s.nk {
		let k = if i + 1 == s.nk {
			rest
		} else {
			let k = sc_tag(&format!("kern/{}", i));
			rest = sc_sub(&rest, &k);
			k
		};
		let feat = match s.variant {
			0 => MF::Plain { fee: fees[i] },
			1 => MF::Locked { fee: fees[i], lock: 7 },
			_ => MF::Nrd { fee: fees[i], rel: 1 },
		};
		kerns.push(MKern::honest(feat, k, i as u32));
	}
	MBody { ins, outs, kerns, offset, offset_raw: None }
}

/// the transaction plus one coinbase output and kernel claiming subsidy + fees
fn base_block(w: &World, s: &Shape) -> MBody {
	let mut b = base_tx(w, s);
	let fees: u64 = b.kerns.iter().map(|k| k.feat.fee()).sum();
	let r = sc_tag("coinbase/out");
	b.outs.push(MOut::new(REWARD + fees, r, true));
	b.kerns.push(MKern::honest(MF::Coinbase, r, 50));
	b
}

struct Cand {
	name: String,
	site: String,
	body: MBody,
}

/// base body first, then every corruption of the closed catalogue at every applicable site
fn candidates(base: &MBody, as_block: bool) -> Vec<Cand> {
	let mut v: Vec<Cand> = vec![Cand { name: "base".into(), site: "-".into(), body: base.clone() }];
	let mut push = |name: String, site: String, body: MBody| v.push(Cand { name, site, body });
	let one = sc_u64(1);
	// output amount +-1 (fresh valid proof for the new commitment)
	for i in 0..base.outs.len() {
		let pre = if base.outs[i].cb { "coinbase" } else { "output" };
		for d in [1i64, -1] {
			if d < 0 && base.outs[i].v == 0 {
				continue;
			}
			let mut b = base.clone();
			b.outs[i].v = (b.outs[i].v as i64 + d) as u64;
			b.outs[i].pv = b.outs[i].v;
			push(format!("{}-amount{}", pre, if d > 0 { "+1" } else { "-1" }), format!("out{}", i), b);
		}
	}
	// kernel fee +-1, fee shift bit: signature kept / re-signed under the same excess
	for i in 0..base.kerns.len() {
		let k = &base.kerns[i];
		if let Some(raw) = k.feat.raw() {
			let mut vars: Vec<(u64, &str)> = vec![(raw + 1, "fee+1")];
			if k.feat.fee() > 0 {
				vars.push((raw - 1, "fee-1"));
				if raw >> 40 == 0 {
					vars.push((raw | (1 << 40), "fee-shift-bit"));
				}
			}
			for (nraw, nm) in vars {
				let mut b = base.clone();
				b.kerns[i].feat = k.feat.with_raw(nraw);
				push(format!("{}-keep-sig", nm), format!("kern{}", i), b.clone());
				b.kerns[i].resign();
				push(format!("{}-resigned", nm), format!("kern{}", i), b);
			}
		}
	}
	// offset
	{
		let mut b = base.clone();
		b.offset = sc_add(&base.offset, &one);
		push("offset+1".into(), "offset".into(), b);
		let mut b = base.clone();
		b.offset = sc_sub(&base.offset, &one);
		push("offset-1".into(), "offset".into(), b);
		if base.offset != ZERO {
			let mut b = base.clone();
			b.offset = ZERO;
			push("offset-zeroed".into(), "offset".into(), b);
		}
		// the offset field holds bytes that are no scalar of the group: all ones, and the group order itself
		// (which a lenient reader would take for zero)
		let mut b = base.clone();
		b.offset_raw = Some([0xffu8; 32]);
		push("offset-not-a-scalar:all-ones".into(), "offset".into(), b);
		let mut b = base.clone();
		b.offset_raw = Some(unlimbs(&N));
		push("offset-not-a-scalar:group-order".into(), "offset".into(), b);
	}
	// kernel dropped / duplicated
	for i in 0..base.kerns.len() {
		let pre = if base.kerns[i].feat.is_cb() { "coinbase-kernel" } else { "kernel" };
		let mut b = base.clone();
		b.kerns.remove(i);
		push(format!("{}-dropped", pre), format!("kern{}", i), b);
		let mut b = base.clone();
		b.kerns.push(base.kerns[i].clone());
		push(format!("{}-duplicated-exact", pre), format!("kern{}", i), b);
		let mut b = base.clone();
		let mut k2 = base.kerns[i].clone();
		k2.sig.nonce += 1000;
		b.kerns.push(k2);
		push(format!("{}-duplicated-resigned", pre), format!("kern{}", i), b);
	}
	// foreign kernel, with and without a compensating offset
	{
		let kf = sc_tag("foreign/kernel");
		for (fee, nm) in [(3_000_000u64, "fee"), (0u64, "nofee")] {
			for comp in [false, true] {
				let mut b = base.clone();
				b.kerns.push(MKern::honest(MF::Plain { fee }, kf, 77));
				if comp {
					b.offset = sc_sub(&b.offset, &kf);
				}
				push(format!("foreign-kernel-{}{}", nm, if comp { "+offset" } else { "" }), "kernels".into(), b);
			}
		}
	}
	// range proofs
	for i in 0..base.outs.len() {
		for j in i + 1..base.outs.len() {
			let mut b = base.clone();
			b.outs[i].pv = base.outs[j].pv;
			b.outs[i].pr = base.outs[j].pr;
			b.outs[j].pv = base.outs[i].pv;
			b.outs[j].pr = base.outs[i].pr;
			push("proofs-swapped".into(), format!("out{}/out{}", i, j), b);
		}
		let mut b = base.clone();
		b.outs[i].pr = sc_tag("foreign/blind");
		push("proof-for-other-blind".into(), format!("out{}", i), b);
		let mut b = base.clone();
		b.outs[i].pv = base.outs[i].v + 1;
		push("proof-for-other-value".into(), format!("out{}", i), b);
	}
	// signatures
	for i in 0..base.kerns.len() {
		for j in i + 1..base.kerns.len() {
			let mut b = base.clone();
			b.kerns[i].sig = base.kerns[j].sig.clone();
			b.kerns[j].sig = base.kerns[i].sig.clone();
			push("sigs-swapped".into(), format!("kern{}/kern{}", i, j), b);
		}
		let mut b = base.clone();
		b.kerns[i].sig.key = sc_tag("foreign/signer");
		push("sig-by-foreign-key".into(), format!("kern{}", i), b);
	}
	// forged value inside an excess, bare and balanced by a larger output
	for i in 0..base.kerns.len() {
		let cbk = base.kerns[i].feat.is_cb();
		let pre = if cbk { "coinbase-excess+H" } else { "excess+H" };
		let mut b = base.clone();
		b.kerns[i].e = 1;
		push(pre.to_string(), format!("kern{}", i), b.clone());
		if let Some(o) = base.outs.iter().position(|o| o.cb == cbk) {
			b.outs[o].v += 1;
			b.outs[o].pv = b.outs[o].v;
			push(format!("{}-balanced-by-output", pre), format!("kern{}/out{}", i, o), b);
		}
	}
	if !as_block {
		// a transaction never carries a coinbase-flagged element (the reward is claimed in blocks only)
		for i in 0..base.outs.len() {
			let mut b = base.clone();
			b.outs[i].cb = true;
			push("tx-output-flagged-coinbase".into(), format!("out{}", i), b);
		}
		for i in 0..base.kerns.len() {
			let mut b = base.clone();
			b.kerns[i].feat = MF::Coinbase;
			push("tx-kernel-flagged-coinbase-keep-sig".into(), format!("kern{}", i), b.clone());
			b.kerns[i].resign();
			push("tx-kernel-flagged-coinbase-resigned".into(), format!("kern{}", i), b);
		}
	}
	if as_block {
		let ci = base.outs.iter().position(|o| o.cb).expect("coinbase output");
		let ck = base.kerns.iter().position(|k| k.feat.is_cb()).expect("coinbase kernel");
		let mut b = base.clone();
		b.outs[ci].cb = false;
		push("coinbase-output-flag-cleared".into(), format!("out{}", ci), b);
		let mut b = base.clone();
		b.kerns[ck].feat = MF::Plain { fee: 0 };
		push("coinbase-kernel-flag-cleared-keep-sig".into(), format!("kern{}", ck), b.clone());
		b.kerns[ck].resign();
		push("coinbase-kernel-flag-cleared-resigned".into(), format!("kern{}", ck), b);
		for i in 0..base.outs.len() {
			if !base.outs[i].cb {
				let mut b = base.clone();
				b.outs[i].cb = true;
				push("plain-output-flagged-coinbase".into(), format!("out{}", i), b);
			}
		}
		for i in 0..base.kerns.len() {
			if !base.kerns[i].feat.is_cb() {
				let mut b = base.clone();
				b.kerns[i].feat = MF::Coinbase;
				push("fee-kernel-flagged-coinbase-keep-sig".into(), format!("kern{}", i), b.clone());
				b.kerns[i].resign();
				push("fee-kernel-flagged-coinbase-resigned".into(), format!("kern{}", i), b);
			}
		}
		let re = sc_tag("coinbase/extra");
		let x = 1_000_000_000u64;
		let mut b = base.clone();
		b.outs.push(MOut::new(1, re, true));
		push("extra-coinbase-output".into(), "outputs".into(), b.clone());
		b.kerns.push(MKern::honest(MF::Coinbase, re, 51));
		push("extra-coinbase-output-with-kernel".into(), "outputs".into(), b);
		// the reward split over two coinbase outputs and kernels (still exactly subsidy + fees)
		let mut b = base.clone();
		b.outs[ci].v -= x;
		b.outs[ci].pv = b.outs[ci].v;
		b.outs.push(MOut::new(x, re, true));
		b.kerns.push(MKern::honest(MF::Coinbase, re, 51));
		push("reward-split-two-coinbase-outputs".into(), "coinbase".into(), b);
		// part of the reward in a plain output, with a plain kernel so that everything sums
		let mut b = base.clone();
		b.outs[ci].v -= x;
		b.outs[ci].pv = b.outs[ci].v;
		b.outs.push(MOut::new(x, re, false));
		b.kerns.push(MKern::honest(MF::Plain { fee: 0 }, re, 52));
		push("reward-part-in-plain-output-rebalanced".into(), "coinbase".into(), b);
	}
	v
}

// ---------------------------------------------------------------------------------------------
// Running one candidate

#[derive(Clone, Copy, PartialEq, Eq)]
enum Ctx {
	Tx,
	Block,
}

impl Ctx {
	fn name(&self) -> &'static str {
		match self {
			Ctx::Tx => "tx",
			Ctx::Block => "block",
		}
	}
}

fn obj_case(s: &Shape, ctx: Ctx, c: &Cand) -> Value {
	json!({"part": "objects", "shape": s.json(), "ctx": ctx.name(), "corruption": c.name, "site": c.site})
}

fn model_json(m: &MBody) -> Value {
	json!({
		"inputs": m.ins.iter().map(|i| json!({"value": i.v, "blind": hex(&i.r)})).collect::<Vec<_>>(),
		"outputs": m.outs.iter().map(|o| json!({"value": o.v, "blind": hex(&o.r), "coinbase": o.cb, "proof_for_value": o.pv, "proof_for_blind": hex(&o.pr)})).collect::<Vec<_>>(),
		"kernels": m.kerns.iter().map(|k| json!({"features": format!("{:?}", k.feat), "excess_key": hex(&k.k), "excess_value": k.e, "signed_by": hex(&k.sig.key), "signed_message": format!("{:?}", k.sig.feat)})).collect::<Vec<_>>(),
		"offset": hex(&m.offset),
		"offset_field_bytes": m.offset_raw.as_ref().map(|r| hex(r)),
	})
}

/// error class with its nesting kept (numbers dropped), e.g. InvalidBlockProof(CoinbaseSumMismatch)
fn wide_class(e: &str) -> String {
	e.chars().filter(|c| c.is_alphabetic() || *c == '(' || *c == ')' || *c == '_').take(64).collect()
}

fn verdict_key(site: &str, name: &str, code_ok: bool) -> String {
	format!("{}:{}:{}", site, name, if code_ok { "accepted-but-reference-rejects" } else { "rejected-but-reference-accepts" })
}

struct Runner<'a> {
	sc: &'a uni::Scratch,
	forge: Forge,
	/// shared chain per world for blocks the reference rejects (none of them may change it)
	shared: BTreeMap<usize, (PathBuf, Chain)>,
	/// the same world with one more plain block on top (head at height 10): a candidate built on block 9 arrives
	/// there as a fork block that does not win; blocks the reference rejects must be refused there as well
	forked: BTreeMap<usize, (PathBuf, Chain)>,
	rootless: u64,
}

impl<'a> Runner<'a> {
	fn new(sc: &'a uni::Scratch) -> Runner<'a> {
		Runner { sc, forge: Forge::default(), shared: BTreeMap::new(), forked: BTreeMap::new(), rootless: 0 }
	}

	fn run_tx(&mut self, s: &Shape, c: &Cand, rep: &mut Report) -> String {
		global::set_local_nrd_enabled(s.variant == 2);
		let exp = judge(&c.body, false);
		let tx = self.forge.tx(&c.body);
		let got = tx.validate(Weighting::AsTransaction);
		rep.evaluations += 1;
		let cls = match &got {
			Ok(_) => "ok".to_string(),
			Err(e) => wide_class(&format!("{:?}", e)),
		};
		rep.outcome(&format!("tx:{}:{}", if exp.is_ok() { "ref-accept" } else { "ref-reject" }, cls));
		if got.is_ok() != exp.is_ok() {
			rep.violation(
				verdict_key("tx-validate", &c.name, got.is_ok()),
				format!(
					"Transaction::validate = {:?} but the reference over the openings says {} ({}); corruption {} at {} of shape {}",
					got.as_ref().map(|_| "Ok"), if exp.is_ok() { "accept" } else { "reject" }, exp.err().unwrap_or("balanced, signed, proven"), c.name, c.site, s.json()
				),
				{
					let mut j = obj_case(s, Ctx::Tx, c);
					j["openings"] = model_json(&c.body);
					j["tx_hex"] = json!(hex(&grin_core::ser::ser_vec(&tx, grin_core::ser::ProtocolVersion::local()).unwrap_or_default()));
					j
				},
			);
		}
		global::set_local_nrd_enabled(false);
		format!("Transaction::validate={:?} reference={:?}", got.map(|_| ()), exp)
	}

	fn run_block(&mut self, w: &World, s: &Shape, c: &Cand, salt: u64, rep: &mut Report) -> String {
		global::set_local_nrd_enabled(s.variant == 2);
		let exp = judge(&c.body, true);
		let mut case = obj_case(s, Ctx::Block, c);
		let fresh = exp.is_ok();
		if !fresh && !self.shared.contains_key(&w.wv) {
			let x = w.open_copy(self.sc);
			self.shared.insert(w.wv, x);
		}
		// blocks the reference accepts get their own copy of the chain (they become its head)
		let own: Option<(PathBuf, Chain)> = if fresh { Some(w.open_copy(self.sc)) } else { None };
		let chain: &Chain = match &own {
			Some(x) => &x.1,
			None => &self.shared[&w.wv].1,
		};
		let (b, rooted) = w.block(chain, &mut self.forge, &c.body, salt);
		if !rooted {
			// the chain could not even apply the body read-only (no MMR roots in the header)
			self.rootless += 1;
		}
		let prev_off = bf(&w.prev_total);
		let v1 = b.validate(&prev_off);
		let v2 = chain.process_block(b.clone(), Options::NONE);
		rep.evaluations += 2;
		let c1 = match &v1 {
			Ok(_) => "ok".to_string(),
			Err(e) => wide_class(&format!("{:?}", e)),
		};
		let c2 = match &v2 {
			Ok(_) => "ok".to_string(),
			Err(e) => wide_class(&format!("{:?}", e)),
		};
		let r = if exp.is_ok() { "ref-accept" } else { "ref-reject" };
		rep.outcome(&format!("block-validate:{}:{}", r, c1));
		rep.outcome(&format!("process_block:{}:{}", r, c2));
		let why = exp.err().unwrap_or("balanced, signed, proven, coinbase exact");
		if case.get("openings").is_none() {
			case["openings"] = model_json(&c.body);
		}
		// A header offset that is no scalar: the stateless Block::validate(prev_offset) derives this block's own
		// offset as (header total - previous total) with a helper that drops unparsable terms, and leaves the
		// refusal to the node's verify_block_sums. The property speaks of blocks the node accepts: for this one
		// corruption the verdict that counts is process_block's (Block::validate's is kept as an outcome class).
		let stateless_out_of_scope = c.body.offset_raw.is_some();
		if stateless_out_of_scope {
			rep.outcome(&format!("block-validate:non-scalar-header-offset:{}", c1));
		}
		if v1.is_ok() != exp.is_ok() && !stateless_out_of_scope {
			rep.violation(
				verdict_key("block-validate", &c.name, v1.is_ok()),
				format!("Block::validate = {:?} but the reference over the openings says {} ({}); corruption {} at {} of shape {}", v1.as_ref().map(|_| "Ok"), r, why, c.name, c.site, s.json()),
				case.clone(),
			);
		}
		if v2.is_ok() != exp.is_ok() {
			rep.violation(
				verdict_key("process_block", &c.name, v2.is_ok()),
				format!("Chain::process_block = {:?} but the reference over the openings says {} ({}); corruption {} at {} of shape {}", v2.as_ref().map(|t| t.as_ref().map(|t| t.height)), r, why, c.name, c.site, s.json()),
				case.clone(),
			);
		}
		if !fresh {
			if !self.forked.contains_key(&w.wv) {
				let x = w.open_copy(self.sc);
				let kc = uni::keychain(SEED);
				let top = uni::extend(&x.1, &kc, &w.prev, &uni::BlockSpec::empty(7_700));
				assert!(top.header.total_difficulty() >= b.header.total_difficulty(), "fork world: the candidate must not have more work than the head");
				self.forked.insert(w.wv, x);
			}
			let v3 = self.forked[&w.wv].1.process_block(b.clone(), Options::NONE);
			rep.evaluations += 1;
			rep.outcome(&format!("process_block-as-losing-fork-block:{}:{}", r, match &v3 { Ok(_) => "ok".to_string(), Err(e) => wide_class(&format!("{:?}", e)) }));
			if v3.is_ok() {
				rep.violation(
					verdict_key("process_block-as-losing-fork-block", &c.name, true),
					format!("Chain::process_block of the block delivered as a sibling of the head (same work, it does not become the head) = {:?} but the reference over the openings says {} ({}); corruption {} at {} of shape {}", v3.as_ref().map(|t| t.as_ref().map(|t| t.height)), r, why, c.name, c.site, s.json()),
					{
						let mut j = case.clone();
						j["as_losing_fork_block"] = json!(true);
						j
					},
				);
				if let Some((d, ch)) = self.forked.remove(&w.wv) {
					drop(ch);
					let _ = std::fs::remove_dir_all(d);
				}
			}
		}
		let mut obs = format!("Block::validate={:?} process_block={:?} reference={:?}", v1.as_ref().map(|_| ()), v2.as_ref().map(|_| ()), exp);
		if fresh && v2.is_ok() {
			// the accepted block is the new head of its own chain copy: full-state checks
			obs.push_str(&after_accept(w, chain, &b, c, &case, rep));
		}
		let poisoned = !fresh && v2.is_ok();
		if let Some((d, ch)) = own {
			drop(ch);
			let _ = std::fs::remove_dir_all(d);
		}
		if poisoned {
			// the shared chain took a block it must not take: start over from a clean copy
			if let Some((d, ch)) = self.shared.remove(&w.wv) {
				drop(ch);
				let _ = std::fs::remove_dir_all(d);
			}
		}
		global::set_local_nrd_enabled(false);
		obs
	}
}

/// after an accepted block: validate, stored sums vs sums from the openings, total offset
fn after_accept(w: &World, chain: &Chain, b: &Block, c: &Cand, case: &Value, rep: &mut Report) -> String {
	let mut obs = String::new();
	let head = chain.head().expect("head");
	if head.last_block_h != b.hash() {
		rep.violation("objects:accepted-block-not-head", format!("accepted block at height {} with more work did not become head", b.header.height), case.clone());
		return " head-not-moved".into();
	}
	for fast in [true, false] {
		let r = chain.validate(fast);
		rep.evaluations += 1;
		rep.outcome(&format!("after-accept:validate({}):{}", fast, if r.is_ok() { "ok" } else { "err" }));
		if let Err(e) = r {
			rep.violation(format!("objects:after-accept:validate({})-fails", fast), format!("Chain::validate({}) = {:?} after accepting {} at {}", fast, e, c.name, c.site), case.clone());
		}
	}
	// openings ledger after the block
	let r_unspent = sc_add(&sc_sub(&w.r_unspent, &sc_sum(c.body.ins.iter().map(|i| &i.r))), &sc_sum(c.body.outs.iter().map(|o| &o.r)));
	let k_all = sc_add(&w.k_all, &sc_sum(c.body.kerns.iter().map(|k| &k.k)));
	let total = sc_add(&w.prev_total, &c.body.offset);
	// values: unspent minus supply is zero exactly when the reference accepted (checked there)
	let exp_utxo = commit(0, &r_unspent);
	let exp_kern = commit(0, &k_all);
	match chain.get_block_sums(&b.hash()) {
		Ok(s) => {
			rep.evaluations += 1;
			if s.utxo_sum != exp_utxo {
				rep.violation("objects:after-accept:stored-utxo-sum-differs", format!("stored utxo_sum {} != (sum of unspent blinding factors)*G {} from the openings", &hex(&s.utxo_sum.0)[..16], &hex(&exp_utxo.0)[..16]), case.clone());
			}
			if s.kernel_sum != exp_kern {
				rep.violation("objects:after-accept:stored-kernel-sum-differs", format!("stored kernel_sum {} != (sum of excess keys)*G {} from the openings", &hex(&s.kernel_sum.0)[..16], &hex(&exp_kern.0)[..16]), case.clone());
			}
			rep.outcome("after-accept:block-sums-compared");
		}
		Err(e) => rep.violation("objects:after-accept:block-sums-missing", format!("get_block_sums of the accepted head = {:?}", e), case.clone()),
	}
	let hh = chain.head_header().expect("head_header");
	if hh.total_kernel_offset != bf(&total) {
		rep.violation("objects:after-accept:total-kernel-offset", format!("head total_kernel_offset {:?} != sum of offsets from the openings {}", hh.total_kernel_offset, hex(&total)), case.clone());
	}
	// full-state equation over the openings: unspent blinds = excess keys + total offset
	if r_unspent != sc_add(&k_all, &total) {
		rep.violation("objects:after-accept:openings-ledger-unbalanced", "harness ledger of openings does not balance after an accepted block".to_string(), case.clone());
	}
	obs.push_str(" validate+sums-checked");
	obs
}

fn objects(tier: Tier, shard: usize, n: usize) -> Report {
	uni::init_thread();
	let mut rep = Report::new();
	let sc = uni::Scratch::new("c01o");
	let scr = &sc;
	// a valid block of the 9-block world refused by the chain is a verdict, not a crash
	guarded("objects-world", &mut rep, move |rep| objects_inner(tier, shard, n, scr, rep));
	rep
}

fn objects_inner(tier: Tier, shard: usize, n: usize, sc: &uni::Scratch, rep: &mut Report) {
	let mut runner = Runner::new(sc);
	let shapes = shapes(tier);
	let mut worlds: BTreeMap<usize, World> = BTreeMap::new();
	let mut idx = 0u64;
	let mut per_corruption: BTreeMap<String, u64> = BTreeMap::new();
	let (mut n_acc, mut n_rej) = (0u64, 0u64);
	for s in &shapes {
		if !worlds.contains_key(&s.wv) {
			let w = World::build(sc, s.wv, &mut runner.forge);
			worlds.insert(s.wv, w);
		}
		let w = &worlds[&s.wv];
		for ctx in [Ctx::Tx, Ctx::Block] {
			let base = if ctx == Ctx::Tx { base_tx(w, s) } else { base_block(w, s) };
			let cands = candidates(&base, ctx == Ctx::Block);
			for c in &cands {
				idx += 1;
				if !mine(idx - 1, shard, n) {
					continue;
				}
				rep.distinct += 1;
				*per_corruption.entry(format!("{}:{}", ctx.name(), c.name)).or_insert(0) += 1;
				if judge(&c.body, ctx == Ctx::Block).is_ok() {
					n_acc += 1;
				} else {
					n_rej += 1;
				}
				match ctx {
					Ctx::Tx => {
						runner.run_tx(s, c, rep);
					}
					Ctx::Block => {
						runner.run_block(w, s, c, idx, rep);
					}
				}
				if rep.samples.len() < 2 && c.name != "base" && (idx % 97 == 3 || c.name.contains("balanced")) {
					rep.sample(json!({"shape": s.json(), "ctx": ctx.name(), "corruption": c.name, "site": c.site,
						"reference": format!("{:?}", judge(&c.body, ctx == Ctx::Block)), "openings": model_json(&c.body)}));
				}
			}
		}
	}
	rep.extra.insert("bound_shapes".into(), json!(shapes.len()));
	rep.extra.insert("reference_accepts".into(), json!(n_acc));
	rep.extra.insert("reference_rejects".into(), json!(n_rej));
	rep.extra.insert("range_proofs_made".into(), json!(runner.forge.made));
	rep.extra.insert("blocks_without_roots".into(), json!(runner.rootless));
	for (k, v) in per_corruption {
		rep.extra.insert(format!("n:{}", k), json!(v));
	}
	runner.shared.clear();
}

// ---------------------------------------------------------------------------------------------
// C01h: invariants on every state of the explored histories

struct RefSums {
	utxo_sum: Commitment,
	kernel_sum: Commitment,
}

struct Inv01 {
	inst: String,
	thorough: bool,
	n_valid: usize,
	seen: HashSet<(String, bool)>,
	cache: HashMap<Option<usize>, Result<RefSums, String>>,
}

impl Inv01 {
	/// sums recomputed by the harness from the reference ledger's replay of the path to `tip`
	fn refsums(&mut self, t: &Tree, tip: Option<usize>) -> &Result<RefSums, String> {
		if !self.cache.contains_key(&tip) {
			let r = match t.state_at(tip) {
				Err((i, bad)) => Err(format!("block {} invalid in the reference ledger: {:?}", t.blocks[i].name, bad)),
				Ok(st) => {
					let utxo: Vec<Commitment> = st.utxo.keys().map(|k| Commitment::from_vec(k.clone())).collect();
					let supply = (t.height(tip) + 1) * REWARD;
					let secp = static_secp_instance();
					let secp = secp.lock();
					let sup = secp.commit_value(supply).expect("commit_value");
					match (secp.commit_sum(utxo, vec![sup]), secp.commit_sum(st.kernels.clone(), vec![])) {
						(Ok(u), Ok(k)) => Ok(RefSums { utxo_sum: u, kernel_sum: k }),
						(a, b) => Err(format!("commit_sum failed: {:?} {:?}", a.err(), b.err())),
					}
				}
			};
			self.cache.insert(tip, r);
		}
		&self.cache[&tip]
	}
}

/// sum over the blocks of the path (genesis included) of (outputs - inputs - 60 grin - excesses)
/// must equal total_offset*G: checked with verify_commit_sum on the block bodies themselves
fn offset_closes_equation(t: &Tree, tip: Option<usize>, total_offset: &BlindingFactor) -> bool {
	let mut pos: Vec<Commitment> = vec![];
	let mut neg: Vec<Commitment> = vec![];
	let mut blocks: Vec<&Block> = vec![&t.gen];
	if let Some(i) = tip {
		for k in t.path(i) {
			blocks.push(&t.blocks[k].block);
		}
	}
	let secp = static_secp_instance();
	let secp = secp.lock();
	for b in &blocks {
		for o in b.outputs() {
			pos.push(o.commitment());
		}
		for c in b.inputs().into_iter_commits() {
			neg.push(c);
		}
		for k in b.kernels() {
			neg.push(k.excess);
		}
	}
	neg.push(secp.commit_value(blocks.len() as u64 * REWARD).expect("commit_value"));
	if *total_offset != BlindingFactor::zero() {
		match total_offset.secret_key(&secp) {
			Ok(k) => neg.push(secp.commit(0, k).expect("commit")),
			Err(_) => return false,
		}
	}
	secp.verify_commit_sum(pos, neg)
}

impl Invariant for Inv01 {
	fn check(&mut self, live: &Live<'_>, prefix: &[Ev], _before: &Fp, after: &Fp, _out: &Outcome, rep: &mut Report) {
		let t = live.tree;
		let chain = live.chain();
		let terminal = live.model.accepted.len() >= self.n_valid;
		let deep = terminal || (self.thorough && prefix.len() % 4 == 0);
		let dg = after.digest();
		if self.seen.contains(&(dg.clone(), true)) || !self.seen.insert((dg, deep)) {
			rep.outcome("state-already-checked");
			return;
		}
		let inst = self.inst.clone();
		let case = || case_json(&inst, t, prefix);
		// (a) the node's own full-state validation
		let r = chain.validate(true);
		rep.evaluations += 1;
		rep.outcome(&format!("validate(fast):{}", if r.is_ok() { "ok".to_string() } else { err_class(&format!("{:?}", r)) }));
		if let Err(e) = r {
			rep.violation("hist:validate-fast-fails", format!("Chain::validate(true) = {:?} after an accepted history", e), case());
		}
		if deep {
			let r = chain.validate(false);
			rep.evaluations += 1;
			rep.outcome(&format!("validate(full):{}", if r.is_ok() { "ok".to_string() } else { err_class(&format!("{:?}", r)) }));
			if let Err(e) = r {
				rep.violation("hist:validate-full-fails", format!("Chain::validate(false) = {:?} after an accepted history", e), case());
			}
		}
		let head = chain.head().expect("head");
		let hidx = if head.last_block_h == t.gen.hash() { None } else { t.index_of(&head.last_block_h) };
		if hidx.is_none() && head.height != 0 {
			rep.violation("hist:head-unknown", format!("head {} is not a block of the universe", head.last_block_h), case());
			return;
		}
		// (b) stored running sums of every best-chain block = sums recomputed from the reference ledger
		let mut tips: Vec<Option<usize>> = vec![None];
		if let Some(i) = hidx {
			tips.extend(t.path(i).into_iter().map(Some));
		}
		let mut compared = 0;
		for tip in &tips {
			let hash = t.tip_hash(*tip);
			let name = tip.map(|i| t.blocks[i].name.clone()).unwrap_or_else(|| "genesis".into());
			let got = chain.get_block_sums(&hash);
			let (eu, ek) = match self.refsums(t, *tip) {
				Ok(s) => (s.utxo_sum, s.kernel_sum),
				Err(e) => {
					rep.violation("hist:head-on-invalid-chain", format!("best chain contains {}: {}", name, e), case());
					return;
				}
			};
			match got {
				Ok(s) => {
					compared += 1;
					if s.utxo_sum != eu {
						rep.violation("hist:block-sums:utxo-sum-differs", format!("stored utxo_sum of {} = {} but unspent set of the reference ledger minus supply sums to {}", name, &hex(&s.utxo_sum.0)[..16], &hex(&eu.0)[..16]), case());
					}
					if s.kernel_sum != ek {
						rep.violation("hist:block-sums:kernel-sum-differs", format!("stored kernel_sum of {} = {} but the kernels of that chain sum to {}", name, &hex(&s.kernel_sum.0)[..16], &hex(&ek.0)[..16]), case());
					}
				}
				Err(e) => rep.violation("hist:block-sums:missing", format!("get_block_sums({}) = {:?} for a block on the best chain", name, e), case()),
			}
		}
		rep.evaluations += compared;
		rep.outcome(&format!("block-sums-compared:{}", compared.min(9)));
		// (c) total kernel offset of the head
		match chain.head_header() {
			Ok(hh) => {
				let claimed = match hidx {
					None => t.gen.header.total_kernel_offset.clone(),
					Some(i) => t.blocks[i].block.header.total_kernel_offset.clone(),
				};
				if hh.total_kernel_offset != claimed {
					rep.violation("hist:total-offset:head-header-differs", "head_header.total_kernel_offset differs from the header of the head block".to_string(), case());
				}
				let ok = offset_closes_equation(t, hidx, &hh.total_kernel_offset);
				rep.evaluations += 1;
				rep.outcome(&format!("total-offset:{}:{}", if hh.total_kernel_offset == BlindingFactor::zero() { "zero" } else { "nonzero" }, if ok { "closes-equation" } else { "MISMATCH" }));
				if !ok {
					rep.violation("hist:total-offset:equation-open", "sum over the best chain's blocks of (outputs - inputs - subsidy - excesses) != head total_kernel_offset * G".to_string(), case());
				}
			}
			Err(e) => rep.violation("hist:head-header-missing", format!("{:?}", e), case()),
		}
	}
}

fn explore_tree(tree: &Tree, inst: &str, sc: &uni::Scratch, tier: Tier, shard: usize, n: usize, rep: &mut Report) {
	let n_valid = (0..tree.blocks.len()).filter(|i| tree.valid(*i).is_ok()).count();
	let mut inv = Inv01 { inst: inst.to_string(), thorough: tier == Tier::Thorough, n_valid, seen: HashSet::new(), cache: HashMap::new() };
	// lifting blocks p1..pN (version-5 variants of the universes) are applied once, below every history
	let is_lift = |i: usize| tree.blocks[i].name.starts_with('p');
	let prelude: Vec<Ev> = (0..tree.blocks.len()).filter(|i| is_lift(*i)).map(Ev::B).collect();
	let mut ex = Explorer::with_prelude(tree, sc, Options::NONE, inst, &prelude);
	ex.live_check = tier.pick(1, 2);
	ex.shard = (shard, n);
	let evs: Vec<Ev> = (0..tree.blocks.len()).filter(|i| !is_lift(*i) && tree.valid(*i).is_ok()).map(Ev::B).collect();
	let mut probes: Vec<Ev> = (0..tree.blocks.len()).filter(|i| tree.valid(*i).is_err()).map(Ev::B).collect();
	if tier == Tier::Thorough {
		probes.push(Ev::Reopen);
	}
	ex.explore_snap(&evs, &probes, &mut inv, rep);
	let _ = std::fs::remove_dir_all(&ex.base);
}

fn histories(tier: Tier, shard: usize, n: usize) -> Report {
	uni::init_thread();
	let mut rep = Report::new();
	let sc = uni::Scratch::new("c01h");
	let variants = tier.pick(1, 2);
	// thorough: each universe also lifted by 12 empty blocks (version-5 headers throughout)
	let lifts: Vec<usize> = tier.pick(vec![0], vec![0, 12]);
	for lift in lifts {
		for v in 0..variants {
			let scr = &sc;
			let tag = if lift == 0 { String::new() } else { format!("+{}", lift) };
			let (ia, ib) = (format!("A{}{}", v, tag), format!("B{}{}", v, tag));
			guarded(&ia.clone(), &mut rep, move |rep| {
				let t = c02::universe_a_lifted(scr, v, lift);
				explore_tree(&t, &ia, scr, tier, shard, n, rep);
			});
			guarded(&ib.clone(), &mut rep, move |rep| {
				let t = c02::universe_b_lifted(scr, v, lift);
				explore_tree(&t, &ib, scr, tier, shard, n, rep);
			});
		}
	}
	rep
}

impl Engine for C01 {
	fn id(&self) -> &'static str {
		"C01"
	}
	fn meta(&self, tier: Tier) -> Meta {
		Meta {
			level: "model_checking",
			rule: "objects: bounded-exhaustive enumeration of body shapes (inputs 0-2) x (outputs 1-3) x (kernels 1-2) x kernel variant {Plain, HeightLocked, NoRecentDuplicate(enabled)} x offset {0, k}, each as a transaction and as the body of a block (with coinbase) at height 10 of a real 9-block chain, built from openings chosen by the harness; for each, the base body and every corruption of a closed catalogue at every applicable site (output / coinbase amount +-1; fee +-1 and fee-shift bit with the signature kept or re-signed; offset +-1 / zeroed; kernel dropped, duplicated exactly, duplicated with a fresh signature; foreign kernel with/without fee and with/without compensating offset; proofs swapped / made for another blind / another value; signatures swapped / by a foreign key; value forged into an excess, bare and balanced by a larger output, also on the coinbase; coinbase flag cleared on output or kernel; plain output or fee kernel flagged coinbase; extra coinbase output with/without kernel; reward split over two coinbase outputs; part of the reward in a plain output with re-balanced kernels). Corrupted blocks get real roots and PoW. Oracle: integer / scalar-mod-n reference over the openings (values balance, blinds = excess keys + offset, each kernel signed by its own excess key over its own features, each proof made for its own opening, coinbase-flagged elements carry exactly 60 grin + fees); Transaction::validate, Block::validate and Chain::process_block must accept iff it accepts; after every accepted block Chain::validate(true/false), stored block sums = sums from the openings, head total_kernel_offset = sum of offsets from the openings. histories: snapshot exploration of every parent-first delivery order of the C02 fork universes (forks, reorgs both ways, invalid probes); on every distinct state Chain::validate(true) (validate(false) at the end of histories), get_block_sums of every best-chain block = (unspent set of the reference ledger minus supply, kernels of that chain) summed by the harness, and head total_kernel_offset closes the equation over the block bodies of the reference chain.",
			assumptions: vec![
				"openings are chosen by the harness: values 0 .. 120 grin, fees 0 .. 0.01 grin, blinding factors and excess keys are hash-derived scalars; only bodies whose other rules (sort order, weight, cut-through, lock heights, NRD version, maturity, unspentness) hold are generated, so that the balance rules decide".into(),
				"fee field layout from the fix-fees RFC: low 40 bits fee, next 4 bits shift (no value)".into(),
				format!("tier {}: {} shapes; histories ride on the C02 universes (fork trees up to 18 blocks)", tier.name(), shapes(tier).len()),
				"discrete-log relations between G and H are assumed unknown (an excess with a value component cannot be signed)".into(),
			],
			exhaustive: true,
		}
	}
	fn parts(&self, _tier: Tier) -> Vec<(&'static str, usize)> {
		vec![("objects", 16), ("histories", 16)]
	}
	fn run_part(&self, part: &str, tier: Tier, shard: usize, n: usize) -> Report {
		match part {
			"objects" => objects(tier, shard, n),
			"histories" => histories(tier, shard, n),
			_ => panic!("unknown part"),
		}
	}
	fn replay(&self, case: &Value) -> Result<String, String> {
		uni::init_thread();
		let sc = uni::Scratch::new("c01r");
		if case["part"].as_str() == Some("objects") {
			let s = Shape::from_json(&case["shape"]).ok_or("bad shape")?;
			let mut runner = Runner::new(&sc);
			let w = World::build(&sc, s.wv, &mut runner.forge);
			let as_block = case["ctx"].as_str() == Some("block");
			let base = if as_block { base_block(&w, &s) } else { base_tx(&w, &s) };
			let name = case["corruption"].as_str().unwrap_or("");
			let site = case["site"].as_str().unwrap_or("");
			let c = candidates(&base, as_block).into_iter().find(|c| c.name == name && c.site == site).ok_or("unknown corruption/site")?;
			let mut rep = Report::new();
			let obs = if as_block { runner.run_block(&w, &s, &c, 0, &mut rep) } else { runner.run_tx(&s, &c, &mut rep) };
			runner.shared.clear();
			return match rep.violations.first() {
				Some(v) => Err(format!("{} :: {}", v.key, v.what)),
				None => Ok(obs),
			};
		}
		let inst = case["instance"].as_str().unwrap_or("");
		let (vs, lift) = match inst.get(1..).unwrap_or("").split_once('+') {
			Some((a, b)) => (a.to_string(), b.parse().unwrap_or(0usize)),
			None => (inst.get(1..).unwrap_or("").to_string(), 0usize),
		};
		let v: usize = vs.parse().unwrap_or(0);
		let tree = if inst.starts_with('A') { c02::universe_a_lifted(&sc, v, lift) } else { c02::universe_b_lifted(&sc, v, lift) };
		// re-run the history and re-check the invariants on its last state
		let dir = sc.fresh("r");
		let mut live = Live::open(&tree, &dir, Options::NONE);
		for i in 0..tree.blocks.len() {
			if tree.blocks[i].name.starts_with('p') {
				let o = live.apply(&Ev::B(i));
				if !o.ok {
					return Err(format!("lifting block {} refused: {}", tree.blocks[i].name, o.err));
				}
			}
		}
		let mut inv = Inv01 { inst: inst.to_string(), thorough: true, n_valid: 0, seen: HashSet::new(), cache: HashMap::new() };
		let mut rep = Report::new();
		let mut prefix = vec![];
		let mut obs = vec![];
		for e in case["events"].as_array().cloned().unwrap_or_default() {
			let s = e.as_str().unwrap_or("");
			let ev = (0..tree.blocks.len())
				.map(Ev::B)
				.chain(std::iter::once(Ev::Reopen))
				.find(|c| c.show(&tree) == s)
				.ok_or(format!("unknown event {}", s))?;
			let before = live.fp();
			let out = live.apply(&ev);
			let after = live.fp();
			prefix.push(ev);
			inv.check(&live, &prefix, &before, &after, &out, &mut rep);
			obs.push(format!("{} -> {}", s, if out.ok { "Ok".to_string() } else { out.err.clone() }));
		}
		match rep.violations.first() {
			Some(v) => Err(format!("{} :: {}", v.key, v.what)),
			None => Ok(obs.join("; ")),
		}
	}
}
