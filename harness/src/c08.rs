//! C08 — Pruning, compaction, rewind and reopen never change what the MMR commits to.
//! Explicit-state exploration of the real on-disk `PMMRBackend` (prunable) through the usage
//! protocol of the chain (units of work: rewinds to earlier block boundaries, then blocks of
//! appends and removals, then sync or discard; compaction and reopen between units), against an
//! unpruned reference.
use crate::elem::{Elem, VarElem};
use crate::ev::{hash64, Report, Tier};
use crate::refmmr::Forest;
use crate::uni;
use crate::{Engine, Meta};
use croaring::Bitmap;
use grin_core::core::hash::Hash;
use grin_core::core::pmmr::{ReadablePMMR, PMMR};
use grin_core::ser::{PMMRable, ProtocolVersion};
use grin_store::pmmr::PMMRBackend;
use serde_json::{json, Value};
use std::collections::{BTreeSet, HashSet};
use std::path::{Path, PathBuf};

pub struct C08;

pub trait TestElem: PMMRable + PartialEq + std::fmt::Debug {
	fn make(id: u32) -> Self;
	fn raw(&self) -> Vec<u8>;
	fn same(e: &Self::E, id: u32) -> bool;
}
impl TestElem for Elem {
	fn make(id: u32) -> Self {
		Elem(id)
	}
	fn raw(&self) -> Vec<u8> {
		self.bytes()
	}
	fn same(e: &Elem, id: u32) -> bool {
		e.0 == id
	}
}
impl TestElem for VarElem {
	fn make(id: u32) -> Self {
		VarElem::of(id)
	}
	fn raw(&self) -> Vec<u8> {
		self.bytes()
	}
	fn same(e: &VarElem, id: u32) -> bool {
		*e == VarElem::of(id)
	}
}

#[derive(Clone, Debug, PartialEq, Eq, Hash)]
struct Bound {
	n_leaves: usize,
	/// leaves (insertion indices) removed by the block that ends at this boundary
	removed: Vec<usize>,
}

#[derive(Clone, Debug, PartialEq, Eq, Hash)]
struct Model {
	leaves: Vec<u32>,
	live: BTreeSet<usize>,
	bounds: Vec<Bound>,
	cutoff_b: usize,
	next_id: u32,
}

impl Model {
	fn new() -> Model {
		Model {
			leaves: vec![],
			live: BTreeSet::new(),
			bounds: vec![Bound { n_leaves: 0, removed: vec![] }],
			cutoff_b: 0,
			next_id: 1,
		}
	}
	fn size(&self) -> u64 {
		mmr_size(self.leaves.len())
	}
}

fn mmr_size(n: usize) -> u64 {
	let n = n as u64;
	if n == 0 {
		0
	} else {
		2 * n - n.count_ones() as u64
	}
}
fn leaf_pos0(i: usize) -> u64 {
	let i = i as u64;
	2 * i - i.count_ones() as u64
}

#[derive(Clone, Debug, PartialEq, Eq, Hash, PartialOrd, Ord)]
enum Op {
	/// unit of work: rewind to boundary `to` (None = stay), then one block per entry
	/// (appends, removals as indices into the live list at that time), then sync/discard
	Unit { to: Option<usize>, blocks: Vec<(usize, Vec<usize>)>, sync: bool, norewind: bool },
	Compact { at: usize },
	Reopen,
}

fn show(op: &Op) -> String {
	match op {
		Op::Unit { to, blocks, sync, norewind } => format!(
			"unit[{}{}{}{}]",
			if *norewind { "norewind " } else { "" },
			to.map(|t| format!("rewind->b{} ", t)).unwrap_or_default(),
			blocks.iter().map(|(a, r)| format!("+{}-{:?}", a, r)).collect::<Vec<_>>().join(" "),
			if *sync { " sync" } else { " discard" }
		),
		Op::Compact { at } => format!("compact@b{}", at),
		Op::Reopen => "reopen".into(),
	}
}

fn h(x: &[u8; 32]) -> Hash {
	Hash::from_vec(x)
}

/// compare the real backend (viewed through PMMR::at) with the reference
fn check<T: TestElem>(be: &mut PMMRBackend<T>, m: &Model, key: &str, hist: &[String], rep: &mut Report) -> bool {
	let mut f = Forest::new(true);
	for id in &m.leaves {
		f.push(&T::make(*id).raw());
	}
	let size = m.size();
	let case = json!({"history": hist});
	let mut ok = true;
	let mut fail = |rep: &mut Report, what: String, sub: &str| {
		rep.violation(format!("{}:{}", key, sub), what, case.clone());
	};
	let pm = PMMR::at(be, size);
	if pm.unpruned_size() != f.size() {
		fail(rep, format!("unpruned_size {} != {}", pm.unpruned_size(), f.size()), "size");
		return false;
	}
	match pm.root() {
		Ok(r) if r == h(&f.root()) => {}
		other => {
			fail(rep, format!("root {:?} differs from the unpruned reference after {:?}", other, hist.last()), "root");
			ok = false;
		}
	}
	let live_pos: Vec<u64> = m.live.iter().map(|i| leaf_pos0(*i)).collect();
	let got_pos: Vec<u64> = pm.leaf_pos_iter().collect();
	if got_pos != live_pos {
		fail(rep, format!("leaf_pos_iter {:?} != reference live positions {:?}", got_pos, live_pos), "leaf_pos_iter");
		ok = false;
	}
	if pm.n_unpruned_leaves() != m.live.len() as u64 {
		fail(rep, format!("n_unpruned_leaves {} != {}", pm.n_unpruned_leaves(), m.live.len()), "n_unpruned_leaves");
		ok = false;
	}
	for from in 0..=m.leaves.len() {
		let exp: Vec<u64> = m.live.iter().filter(|i| **i >= from).map(|i| *i as u64).collect();
		let got: Vec<u64> = pm.leaf_idx_iter(from as u64).collect();
		if got != exp {
			fail(rep, format!("leaf_idx_iter({}) {:?} != {:?}", from, got, exp), "leaf_idx_iter");
			ok = false;
			break;
		}
	}
	let root = h(&f.root());
	for (i, id) in m.leaves.iter().enumerate() {
		let pos = leaf_pos0(i);
		if m.live.contains(&i) {
			match pm.get_data(pos) {
				Some(e) if T::same(&e, *id) => {}
				other => {
					fail(rep, format!("get_data(leaf {}) = {:?}, expected element {}", i, other, id), "get_data");
					ok = false;
				}
			}
			if pm.get_hash(pos) != Some(h(&f.nodes[pos as usize].hash)) {
				fail(rep, format!("get_hash(leaf {}) wrong", i), "get_hash");
				ok = false;
			}
			match pm.merkle_proof(pos) {
				Ok(p) => {
					if p.verify(root, &T::make(*id), pos).is_err() {
						fail(rep, format!("merkle_proof(leaf {}) does not verify against the root", i), "merkle_proof");
						ok = false;
					}
				}
				Err(e) => {
					fail(rep, format!("merkle_proof(leaf {}) failed: {}", i, e), "merkle_proof");
					ok = false;
				}
			}
		} else {
			if pm.get_data(pos).is_some() || pm.get_hash(pos).is_some() {
				fail(rep, format!("spent leaf {} still reported by get_data/get_hash", i), "spent-leaf-visible");
				ok = false;
			}
		}
	}
	if let Err(e) = pm.validate() {
		fail(rep, format!("PMMR::validate: {}", e), "validate");
		ok = false;
	}
	ok
}

fn open<T: TestElem>(dir: &Path) -> PMMRBackend<T> {
	PMMRBackend::<T>::new(dir, true, ProtocolVersion(1), None).expect("open backend")
}

/// Execute one op on the directory; returns false if an oracle failed.
fn exec<T: TestElem>(dir: &Path, m: &mut Model, op: &Op, hist: &[String], rep: &mut Report) -> bool {
	let mut be = open::<T>(dir);
	exec_on::<T>(&mut be, m, op, hist, rep)
}

/// Execute one op on an open backend (which the caller may keep across ops).
fn exec_on<T: TestElem>(be: &mut PMMRBackend<T>, m: &mut Model, op: &Op, hist: &[String], rep: &mut Report) -> bool {
	let mut ok = true;
	match op {
		Op::Reopen => {
			ok &= check(be, m, "reopen", hist, rep);
		}
		Op::Compact { at } => {
			let mut rm = Bitmap::new();
			for b in &m.bounds[*at + 1..] {
				for i in &b.removed {
					rm.add(1 + leaf_pos0(*i) as u32);
				}
			}
			let cutoff = mmr_size(m.bounds[*at].n_leaves);
			if let Err(e) = be.check_compact(cutoff, &rm) {
				rep.violation("compact:error", format!("check_compact({}) failed: {:?}", cutoff, e), json!({"history": hist}));
				return false;
			}
			m.cutoff_b = *at;
			ok &= check(be, m, "compact", hist, rep);
		}
		Op::Unit { to, blocks, sync, norewind } => {
			let saved = m.clone();
			// the chain always starts a unit by rewinding to the boundary it builds on (even when it
			// is the current one); other users of the backend (segment application, header sync)
			// append without any rewind: `norewind`
			let target = to.unwrap_or(m.bounds.len() - 1);
			let mut k = m.bounds.len() - 1;
			loop {
				if *norewind {
					break;
				}
				// rewind block k (or the no-op rewind when k == target)
				let (prev_leaves, removed) = if k > target {
					(m.bounds[k - 1].n_leaves, m.bounds[k].removed.clone())
				} else {
					(m.bounds[k].n_leaves, vec![])
				};
				let mut bm = Bitmap::new();
				for i in &removed {
					bm.add(1 + leaf_pos0(*i) as u32);
				}
				{
					let cur = m.size();
					let mut pm = PMMR::at(be, cur);
					if let Err(e) = pm.rewind(mmr_size(prev_leaves), &bm) {
						rep.violation("rewind:error", format!("rewind failed: {}", e), json!({"history": hist}));
						return false;
					}
				}
				m.leaves.truncate(prev_leaves);
				m.live = m.live.iter().cloned().filter(|i| *i < prev_leaves).collect();
				for i in removed {
					m.live.insert(i);
				}
				if k > target {
					m.bounds.pop();
					k -= 1;
					ok &= check(be, m, "rewind", hist, rep);
				} else {
					ok &= check(be, m, "rewind", hist, rep);
					break;
				}
			}
			for (appends, removals) in blocks {
				// removals are indices into the live list as it is before this block
				let live_before: Vec<usize> = m.live.iter().cloned().collect();
				let mut removed = vec![];
				{
					let cur = m.size();
					let mut pm = PMMR::at(be, cur);
					for _ in 0..*appends {
						let id = m.next_id;
						m.next_id += 1;
						let e = T::make(id);
						match pm.push(&e) {
							Ok(pos) => {
								if pos != leaf_pos0(m.leaves.len()) {
									rep.violation("push:pos", format!("push returned pos {} expected {}", pos, leaf_pos0(m.leaves.len())), json!({"history": hist}));
									ok = false;
								}
							}
							Err(e) => {
								rep.violation("push:error", format!("push failed: {}", e), json!({"history": hist}));
								return false;
							}
						}
						m.live.insert(m.leaves.len());
						m.leaves.push(id);
					}
					for r in removals {
						let li = live_before[*r];
						match pm.prune(leaf_pos0(li)) {
							Ok(true) => {}
							other => {
								rep.violation("prune:result", format!("prune(live leaf {}) = {:?}", li, other), json!({"history": hist}));
								ok = false;
							}
						}
						m.live.remove(&li);
						removed.push(li);
					}
				}
				m.bounds.push(Bound { n_leaves: m.leaves.len(), removed });
				ok &= check(be, m, "block", hist, rep);
			}
			if *sync {
				if let Err(e) = be.sync() {
					rep.violation("sync:error", format!("{:?}", e), json!({"history": hist}));
					return false;
				}
				ok &= check(be, m, "sync", hist, rep);
			} else {
				be.discard();
				// ids consumed by the discarded unit are never reused
				let next = m.next_id;
				*m = saved;
				m.next_id = next;
				ok &= check(be, m, "discard", hist, rep);
			}
		}
	}
	ok
}

fn dir_digest(dir: &Path) -> u64 {
	let mut names: Vec<PathBuf> = std::fs::read_dir(dir).map(|r| r.flatten().map(|e| e.path()).collect()).unwrap_or_default();
	names.sort();
	let mut acc: Vec<(String, u64)> = vec![];
	for p in names {
		if p.is_file() {
			let b = std::fs::read(&p).unwrap_or_default();
			acc.push((p.file_name().unwrap().to_string_lossy().to_string(), hash64(&b)));
		}
	}
	hash64(&acc)
}

struct Bounds {
	max_depth: usize,
	max_leaves: usize,
	max_removals: usize,
	max_appends: usize,
	two_block_units: bool,
}

fn ops_for(m: &Model, b: &Bounds) -> Vec<Op> {
	let mut out = vec![];
	let last = m.bounds.len() - 1;
	// block shapes on top of a given live list length
	let block_choices = |live_len: usize, room: usize| -> Vec<(usize, Vec<usize>)> {
		let mut v = vec![];
		for a in 0..=b.max_appends.min(room) {
			let mut subsets: Vec<Vec<usize>> = vec![vec![]];
			for i in 0..live_len {
				subsets.push(vec![i]);
			}
			if b.max_removals >= 2 {
				for i in 0..live_len {
					for j in i + 1..live_len {
						subsets.push(vec![i, j]);
					}
				}
			}
			for s in subsets {
				// a block that neither appends nor removes is no block
				if a == 0 && s.is_empty() {
					continue;
				}
				v.push((a, s));
			}
		}
		v
	};
	let mut targets: Vec<Option<usize>> = vec![None];
	for t in m.cutoff_b..last {
		targets.push(Some(t));
	}
	for to in targets {
		// live set and leaf count after the rewind
		let tb = to.unwrap_or(last);
		let n_leaves = m.bounds[tb].n_leaves;
		let mut live: BTreeSet<usize> = m.live.iter().cloned().filter(|i| *i < n_leaves).collect();
		for k in tb + 1..=last {
			for i in &m.bounds[k].removed {
				if *i < n_leaves {
					live.insert(*i);
				}
			}
		}
		let room = b.max_leaves.saturating_sub(n_leaves);
		for blk in block_choices(live.len(), room) {
			for sync in [true, false] {
				if !sync && to.is_none() && !blk.1.is_empty() && blk.0 > 1 {
					continue; // a few discard shapes are enough: keep the simplest and the rewound ones
				}
				out.push(Op::Unit { to, blocks: vec![blk.clone()], sync, norewind: false });
			}
			if b.two_block_units && to.is_some() && room >= blk.0 + 1 {
				// reorg shape: rewind, then two blocks (second one: one append, removes the first live leaf)
				let second = (1usize, if live.len() > blk.1.len() { vec![0usize] } else { vec![] });
				// indices of the second block refer to the live list after the first block
				out.push(Op::Unit { to, blocks: vec![blk.clone(), second], sync: true, norewind: false });
			}
		}
	}
	for at in m.cutoff_b..=last {
		if at > m.cutoff_b || at == last {
			out.push(Op::Compact { at });
		}
	}
	out.push(Op::Reopen);
	out
}

struct X<'a> {
	sc: &'a uni::Scratch,
	memo: HashSet<u64>,
	b: Bounds,
	me: usize,
	n: usize,
	max_states: u64,
}

fn dfs<T: TestElem>(x: &mut X<'_>, dir: &Path, m: &Model, hist: &mut Vec<String>, rep: &mut Report, range: (usize, usize), tag: &str) {
	let units_done = hist.iter().filter(|h| h.starts_with("unit")).count();
	let compacts_done = hist.iter().filter(|h| h.starts_with("compact")).count();
	let reopens_done = hist.iter().filter(|h| h.starts_with("reopen")).count();
	if rep.states >= x.max_states {
		rep.capped = Some(format!("state cap {}", x.max_states));
		return;
	}
	let ops = ops_for(m, &x.b);
	let size = range.1 - range.0;
	let k = ops.len().max(1);
	let ops: Vec<Op> = ops
		.into_iter()
		.filter(|op| match op {
			Op::Unit { .. } => units_done < x.b.max_depth,
			Op::Compact { .. } => compacts_done < 2 && !hist.last().map(|h| h.starts_with("compact")).unwrap_or(false),
			Op::Reopen => reopens_done < 1 && units_done > 0,
		})
		.collect();
	let k = ops.len().max(1);
	for (ci, op) in ops.iter().enumerate() {
		let child_range = if size <= 1 {
			range
		} else if k <= size {
			(range.0 + ci * size / k, range.0 + (ci + 1) * size / k)
		} else {
			let s = range.0 + ci % size;
			(s, s + 1)
		};
		if x.me < child_range.0 || x.me >= child_range.1 {
			continue;
		}
		let d = x.sc.fresh("m");
		uni::copy_dir(dir, &d);
		let mut m2 = m.clone();
		hist.push(show(op));
		rep.transitions += 1;
		rep.evaluations += 1;
		let ok = exec::<T>(&d, &mut m2, op, hist, rep);
		rep.outcome(match op {
			Op::Unit { to: Some(_), sync: true, .. } => "unit:rewind+sync",
			Op::Unit { to: Some(_), sync: false, .. } => "unit:rewind+discard",
			Op::Unit { to: None, sync: true, .. } => "unit:sync",
			Op::Unit { to: None, sync: false, .. } => "unit:discard",
			Op::Compact { .. } => "compact",
			Op::Reopen => "reopen",
		});
		if ok {
			// in-memory state must be a function of disk state: the key includes the files
			let key = hash64(&(tag, &m2, dir_digest(&d), units_done, compacts_done, reopens_done, matches!(op, Op::Compact { .. })));
			if x.memo.insert(key) {
				rep.states += 1;
				rep.distinct += 1;
				rep.state_keys.insert(hash64(&(tag, &m2, dir_digest(&d))));
				if rep.samples.len() < 3 && hist.len() >= 4 {
					rep.sample(json!({"element": tag, "history": hist.clone(), "leaves": m2.leaves.len(), "live": m2.live, "cutoff_boundary": m2.cutoff_b}));
				}
				dfs::<T>(x, &d, &m2, hist, rep, child_range, tag);
			}
		}
		hist.pop();
		let _ = std::fs::remove_dir_all(&d);
	}
}

fn run<T: TestElem>(tier: Tier, shard: usize, n: usize, tag: &str) -> Report {
	let mut rep = Report::new();
	let sc = uni::Scratch::new("c08");
	let b = match tier {
		Tier::Quick => Bounds { max_depth: 3, max_leaves: 9, max_removals: 2, max_appends: 3, two_block_units: true },
		Tier::Thorough => Bounds { max_depth: 4, max_leaves: 7, max_removals: 2, max_appends: 2, two_block_units: true },
	};
	rep.extra.insert("bound_depth_units".into(), json!(b.max_depth));
	rep.extra.insert("bound_leaves".into(), json!(b.max_leaves));
	let root = sc.fresh("root");
	std::fs::create_dir_all(&root).unwrap();
	{
		let be = open::<T>(&root);
		drop(be);
	}
	let mut x = X { sc: &sc, memo: HashSet::new(), b, me: shard, n, max_states: tier.pick(400_000, 4_000_000) };
	let mut hist = vec![];
	dfs::<T>(&mut x, &root, &Model::new(), &mut hist, &mut rep, (0, n), tag);
	// second start: a backend that already holds synced, partly spent leaves (what a compaction can
	// shrink), explored with narrower blocks - sequences such as discard, compact, discard, append
	// need fewer steps from here than from the empty backend
	let root2 = sc.fresh("root2");
	std::fs::create_dir_all(&root2).unwrap();
	{
		let be = open::<T>(&root2);
		drop(be);
	}
	let mut m0 = Model::new();
	let pre = [Op::Unit { to: None, blocks: vec![(4, vec![])], sync: true, norewind: false }, Op::Unit { to: None, blocks: vec![(0, vec![0, 1])], sync: true, norewind: false }];
	let mut pre_hist: Vec<String> = vec![];
	for op in &pre {
		pre_hist.push(format!("pre:{}", show(op)));
		if !exec::<T>(&root2, &mut m0, op, &pre_hist, &mut rep) {
			return rep;
		}
	}
	x.b = match tier {
		Tier::Quick => Bounds { max_depth: 3, max_leaves: 6, max_removals: 1, max_appends: 1, two_block_units: false },
		Tier::Thorough => Bounds { max_depth: 4, max_leaves: 7, max_removals: 1, max_appends: 2, two_block_units: false },
	};
	let tag2 = format!("{}:from-spent-leaves", tag);
	let mut hist = pre_hist.clone();
	dfs::<T>(&mut x, &root2, &m0, &mut hist, &mut rep, (0, n), &tag2);
	let _ = x.n;
	rep
}

/// Live part: one backend object kept open across the ops of a path (only `reopen` replaces it), so
/// that state the backend keeps in memory between units of work is part of what is explored.
/// Stateless DFS: every path of the depth bound is executed from its start state (no memoisation:
/// the in-memory state is not observable).
fn live<T: TestElem>(tier: Tier, shard: usize, n: usize, tag: &str) -> Report {
	let mut rep = Report::new();
	let sc = uni::Scratch::new("c08l");
	let depth = tier.pick(4usize, 5);
	rep.extra.insert("bound_depth_ops".into(), json!(depth));
	// narrow alphabet: rewind targets {stay, one block back}; blocks {+1, -first live, +1 -first live}
	let narrow = |m: &Model| -> Vec<Op> {
		let last = m.bounds.len() - 1;
		let mut out = vec![];
		let mut targets: Vec<Option<usize>> = vec![None];
		if last >= 1 && last - 1 >= m.cutoff_b {
			targets.push(Some(last - 1));
		}
		for to in targets {
			let tb = to.unwrap_or(last);
			let n_leaves = m.bounds[tb].n_leaves;
			let mut live: BTreeSet<usize> = m.live.iter().cloned().filter(|i| *i < n_leaves).collect();
			for k in tb + 1..=last {
				for i in &m.bounds[k].removed {
					if *i < n_leaves {
						live.insert(*i);
					}
				}
			}
			let mut blocks: Vec<(usize, Vec<usize>)> = vec![(1, vec![])];
			if !live.is_empty() {
				blocks.push((0, vec![0]));
				blocks.push((1, vec![0]));
			}
			for b in blocks {
				for sync in [true, false] {
					out.push(Op::Unit { to, blocks: vec![b.clone()], sync, norewind: false });
				}
				if to.is_none() {
					// the same block in a unit of work that does not rewind at all
					out.push(Op::Unit { to, blocks: vec![b.clone()], sync: true, norewind: true });
				}
			}
			if to.is_none() {
				// a read-only unit: rewind to the current boundary, look, discard
				out.push(Op::Unit { to, blocks: vec![], sync: false, norewind: false });
			}
		}
		out.push(Op::Compact { at: last });
		if last >= 1 && last - 1 > m.cutoff_b {
			out.push(Op::Compact { at: last - 1 });
		}
		out.push(Op::Reopen);
		out
	};
	// start states: empty, and 4 synced leaves of which two are spent
	let starts: Vec<(&str, Vec<Op>)> = vec![
		("empty", vec![]),
		("spent-leaves", vec![Op::Unit { to: None, blocks: vec![(4, vec![])], sync: true, norewind: false }, Op::Unit { to: None, blocks: vec![(0, vec![0, 1])], sync: true, norewind: false }]),
	];
	let mut paths = 0u64;
	for (sname, pre) in &starts {
		// enumerate paths by index vectors; the model is replayed to know the alphabet of each step
		let mut stack: Vec<Vec<usize>> = vec![vec![]];
		let mut top = 0usize;
		while let Some(choice) = stack.pop() {
			let dir = sc.fresh("l");
			std::fs::create_dir_all(&dir).unwrap();
			let mut be = open::<T>(&dir);
			let mut m = Model::new();
			let mut hist: Vec<String> = vec![];
			let mut ok = true;
			for op in pre {
				hist.push(format!("pre:{}", show(op)));
				ok &= exec_on::<T>(&mut be, &mut m, op, &hist, &mut rep);
			}
			if ok {
				drop(be);
				be = open::<T>(&dir);
			}
			for ci in &choice {
				if !ok {
					break;
				}
				let ops = narrow(&m);
				let op = ops[*ci].clone();
				hist.push(show(&op));
				rep.transitions += 1;
				if op == Op::Reopen {
					drop(be);
					be = open::<T>(&dir);
				}
				ok &= exec_on::<T>(&mut be, &mut m, &op, &hist, &mut rep);
			}
			if choice.len() == depth || !ok {
				paths += 1;
				rep.evaluations += 1;
				rep.distinct += 1;
				rep.outcome(&format!("live:{}:path-of-{}", sname, choice.len()));
			} else {
				let k = narrow(&m).len();
				for ci in 0..k {
					if choice.is_empty() {
						top += 1;
						if (top - 1) % n != shard {
							continue;
						}
					}
					let mut c = choice.clone();
					c.push(ci);
					stack.push(c);
				}
			}
			drop(be);
			let _ = std::fs::remove_dir_all(&dir);
			if rep.violations.len() >= 20 {
				break;
			}
		}
	}
	rep.extra.insert(format!("live_paths_{}", tag), json!(paths));
	rep
}

/// inverse of `show`
fn parse_op(h: &str) -> Result<Op, String> {
	let h = h.strip_prefix("pre:").unwrap_or(h);
	if h == "reopen" {
		return Ok(Op::Reopen);
	}
	if let Some(at) = h.strip_prefix("compact@b") {
		return Ok(Op::Compact { at: at.parse().map_err(|_| format!("bad op {}", h))? });
	}
	let body = h.strip_prefix("unit[").and_then(|x| x.strip_suffix(']')).ok_or(format!("bad op {}", h))?;
	let (body, sync) = if let Some(b) = body.strip_suffix(" sync") {
		(b, true)
	} else if let Some(b) = body.strip_suffix(" discard") {
		(b, false)
	} else {
		return Err(format!("bad op {}", h));
	};
	let (body, norewind) = match body.strip_prefix("norewind") {
		Some(b) => (b.trim_start(), true),
		None => (body, false),
	};
	let (to, mut rest) = match body.strip_prefix("rewind->b") {
		Some(r) => {
			let end = r.find(' ').unwrap_or(r.len());
			(Some(r[..end].parse::<usize>().map_err(|_| format!("bad op {}", h))?), r[end..].trim_start())
		}
		None => (None, body),
	};
	let mut blocks = vec![];
	while let Some(r) = rest.strip_prefix('+') {
		let dash = r.find("-[").ok_or(format!("bad op {}", h))?;
		let close = r.find(']').ok_or(format!("bad op {}", h))?;
		let a: usize = r[..dash].parse().map_err(|_| format!("bad op {}", h))?;
		let rem: Vec<usize> = r[dash + 2..close].split(',').map(|x| x.trim()).filter(|x| !x.is_empty()).map(|x| x.parse().unwrap_or(0)).collect();
		blocks.push((a, rem));
		rest = r[close + 1..].trim_start();
	}
	Ok(Op::Unit { to, blocks, sync, norewind })
}

fn replay_ops<T: TestElem>(ops: &[Op], tag: &str) -> Result<String, String> {
	// both execution disciplines: a fresh backend object per op (snapshot parts) and one backend
	// object kept across ops (live part)
	for keep in [false, true] {
		let sc = uni::Scratch::new("c08r");
		let dir = sc.fresh("r");
		std::fs::create_dir_all(&dir).unwrap();
		let mut be = open::<T>(&dir);
		let mut m = Model::new();
		let mut rep = Report::new();
		let mut hist = vec![];
		for op in ops {
			hist.push(show(op));
			if !keep || *op == Op::Reopen {
				drop(be);
				be = open::<T>(&dir);
			}
			let ok = exec_on::<T>(&mut be, &mut m, op, &hist, &mut rep);
			if !ok || !rep.violations.is_empty() {
				let v = rep.violations.first().map(|v| format!("{}: {}", v.key, v.what)).unwrap_or_else(|| "step failed".into());
				return Err(format!("{} elements ({}): after {:?}: {}", tag, if keep { "one backend object kept open" } else { "backend reopened before every op" }, hist, v));
			}
		}
	}
	Ok(format!("{} elements: {} steps agree with the reference under both disciplines", tag, ops.len()))
}

impl Engine for C08 {
	fn id(&self) -> &'static str {
		"C08"
	}
	fn meta(&self, _tier: Tier) -> Meta {
		Meta {
			level: "model_checking",
			rule: "explicit-state exploration (DFS over snapshots of the backend directory, memoised on reference state + file contents + remaining depth) of the real prunable PMMRBackend for a fixed-size and a variable-size element type. Alphabet: a unit of work = optional rewind to any earlier block boundary not below the last compaction cutoff (block by block, each with the bitmap of the leaves that block removed, exactly as Extension::rewind does) then one or two blocks of 0..3 appends and removal of any <= 2 live leaves (spend-only blocks included), then sync or discard; check_compact at any boundary with the rewind bitmap of later removals; reopen. After every step the view through PMMR::at must agree with an unpruned reference: root, size, get_data/get_hash of every live leaf, None for spent leaves, a merkle_proof for every live leaf verifying against the root, leaf_pos_iter, leaf_idx_iter(from) for every from, n_unpruned_leaves, PMMR::validate. The snapshot parts open a fresh backend object for every step and start from the empty backend and from one holding four synced leaves of which two are spent. (live parts) the same oracle with ONE backend object kept open along each path (only `reopen` replaces it), so that what the backend keeps in memory between units of work is explored too: every path of the depth bound (no memoisation) over a narrower alphabet {unit = rewind to the current boundary or one block back, then +1 / -first live / +1 -first live, sync or discard; the same blocks in a unit that does not rewind at all; a read-only unit (rewind, look, discard); compact at the last two boundaries; reopen}, from both start states. (chain-compaction) the chain-level clause: on a 90-block chain whose pre-horizon outputs were spent in the patterns that matter to the pruner (siblings; the head block itself spending an old output whose sibling is spent), every order of {Chain::compact, reopen, the next block, a three-block fork from inside the horizon that reorgs the head out}: the unspent set must stay the reference replay of the winning chain and full validation must pass.",
			assumptions: vec![
				"rewinds never go below the last compaction cutoff and happen before the appends of a unit (the store's documented usage protocol)".into(),
				"3 units of work with up to 3 appends and 9 leaves (quick) / 4 units with up to 2 appends and 7 leaves (thorough), plus up to 2 compactions and 1 reopen anywhere in between; removal sets of size <= 2 per block".into(),
				"live parts: paths of 4 ops (quick) / 5 ops (thorough)".into(),
			],
			exhaustive: true,
		}
	}
	fn parts(&self, _tier: Tier) -> Vec<(&'static str, usize)> {
		vec![("fixed", 16), ("variable", 16), ("live-fixed", 16), ("live-variable", 16), ("chain-compaction", 8)]
	}
	fn run_part(&self, part: &str, tier: Tier, shard: usize, n: usize) -> Report {
		match part {
			"fixed" => run::<Elem>(tier, shard, n, "fixed"),
			"variable" => run::<VarElem>(tier, shard, n, "variable"),
			"live-fixed" => live::<Elem>(tier, shard, n, "fixed"),
			"live-variable" => live::<VarElem>(tier, shard, n, "variable"),
			// the chain-level clause: Chain::compact on a 90-block chain in every order with reopen,
			// the next block and a fork that reorgs the head out (the engine of C02's compaction part)
			"chain-compaction" => crate::c02::compaction(tier, shard, n),
			_ => panic!("unknown part"),
		}
	}
	fn replay(&self, case: &Value) -> Result<String, String> {
		if case.get("instance").is_some() {
			return crate::Engine::replay(&crate::c02::C02, case);
		}
		let hist: Vec<String> = case["history"].as_array().ok_or("no history")?.iter().filter_map(|x| x.as_str().map(|s| s.to_string())).collect();
		let ops: Vec<Op> = hist.iter().map(|h| parse_op(h)).collect::<Result<_, _>>()?;
		let a = replay_ops::<Elem>(&ops, "fixed");
		let b = replay_ops::<VarElem>(&ops, "variable");
		match (a, b) {
			(Ok(x), Ok(y)) => Ok(format!("{}; {}", x, y)),
			(a, b) => Err(format!("{:?}; {:?}", a, b)),
		}
	}
}
