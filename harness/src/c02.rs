//! C02 — Every input spends an existing unspent output exactly once, on every fork.
use crate::chainx::{case_json, check_unspent, Ev, Explorer, Invariant, Live, Outcome, TreeBuilder};
use crate::ev::{Report, Tier};
use crate::fp::Fp;
use crate::ledger::{cbytes, InputCommits, Tree};
use crate::uni::{self, BlockSpec, REWARD};
use crate::{Engine, Meta};
use grin_chain::types::Options;
use grin_core::core::hash::Hashed;
use grin_core::core::{committed, Block, Inputs, Transaction, TransactionBody};
use serde_json::{json, Value};
use std::collections::BTreeSet;

pub struct C02;

const M: u64 = 1_000_000;

/// merge a second transaction into a block body without de-duplicating inputs
fn merge_raw(b: &mut Block, tx: &Transaction) {
	let mut ins: Vec<grin_core::core::Input> = vec![];
	let cur: Vec<grin_core::core::transaction::CommitWrapper> = b.inputs().into();
	for c in cur {
		ins.push(grin_core::core::Input::new(grin_core::core::OutputFeatures::Coinbase, c.commitment()));
	}
	let add: Vec<grin_core::core::transaction::CommitWrapper> = tx.inputs().into();
	for c in add {
		ins.push(grin_core::core::Input::new(grin_core::core::OutputFeatures::Coinbase, c.commitment()));
	}
	let mut outs = b.outputs().to_vec();
	outs.extend_from_slice(tx.outputs());
	let mut kerns = b.kernels().to_vec();
	kerns.extend_from_slice(tx.kernels());
	ins.sort_unstable();
	outs.sort_unstable();
	kerns.sort_unstable();
	b.body = TransactionBody::init(Inputs::FeaturesAndCommit(ins), &outs, &kerns, false).expect("body");
	b.header.total_kernel_offset = committed::sum_kernel_offsets(
		vec![b.header.total_kernel_offset.clone(), tx.offset.clone()],
		vec![],
	)
	.expect("offset");
}

/// Universe A: two forks, the same coinbase spent on both, an output created and spent on one
/// fork, the same commitment created on the other, a re-created commitment, and six invalid blocks.
pub fn universe_a(sc: &uni::Scratch, variant: usize) -> Tree {
	universe_a_lifted(sc, variant, 0)
}

/// `lift` empty blocks p1..pN below m1: with 12 of them every block of the universe has a
/// version-5 header (output root merged with the bitmap root, commit-only inputs), as on mainnet.
fn lift_base(tb: &mut TreeBuilder, lift: usize) -> Option<usize> {
	let mut prev = None;
	for i in 1..=lift {
		prev = Some(tb.add(&format!("p{}", i), prev, &BlockSpec::empty(200 + i as u32)));
	}
	prev
}

pub fn universe_a_lifted(sc: &uni::Scratch, variant: usize, lift: usize) -> Tree {
	let mut tb = TreeBuilder::new(sc, 11, false);
	let kc = uni::keychain(11);
	let base = lift_base(&mut tb, lift);
	// fork point varies with the variant: m3 or m4
	let m1 = tb.add("m1", base, &BlockSpec::empty(1));
	let m2 = tb.add("m2", Some(m1), &BlockSpec::empty(2));
	let m3 = tb.add("m3", Some(m2), &BlockSpec::empty(3));
	let m4 = tb.add("m4", Some(m3), &BlockSpec::empty(4));
	let x_val = REWARD - M;
	let tx1 = uni::spend_coinbase(&kc, 1, REWARD, &[(100, x_val)], 1); // cb1 -> X
	let m5 = tb.add("m5", Some(m4), &BlockSpec::with(5, vec![tx1.clone()]));
	let tx2 = uni::spend_plain(&kc, &[(100, x_val)], &[(101, x_val - M)], None, 2); // X -> Y
	let m6 = tb.add("m6", Some(m5), &BlockSpec::with(6, vec![tx2]));
	let m7 = tb.add("m7", Some(m6), &BlockSpec::empty(7));
	let _m8 = tb.add("m8", Some(m7), &BlockSpec::empty(8));
	// fork
	let fp = if variant % 2 == 0 { m4 } else { m3 };
	let tx3 = uni::spend_coinbase(&kc, 1, REWARD, &[(102, REWARD - 2 * M)], 3); // cb1 -> Z (other fork)
	let mut prev = fp;
	let mut fork = vec![];
	if fp == m3 {
		prev = tb.add("f4", Some(prev), &BlockSpec::empty(54));
		fork.push(prev);
	}
	let f5 = tb.add("f5", Some(prev), &BlockSpec::with(55, vec![tx3.clone()]));
	// the commitment X is created on the fork too (from cb2), where it does not exist
	let tx4 = uni::spend_coinbase(&kc, 2, REWARD, &[(100, x_val)], 4);
	let f6 = tb.add("f6", Some(f5), &BlockSpec::with(56, vec![tx4.clone()]));
	let _f7 = tb.add("f7", Some(f6), &BlockSpec::empty(57));
	// re-created commitment: X again on main after it was spent in m6
	let _r7 = tb.add("r7", Some(m6), &BlockSpec::with(77, vec![tx4.clone()]));
	// ---- invalid blocks
	// double spend across two blocks of one fork: cb1 again on top of m5
	tb.add_invalid("i1:cb1-again-on-m5", Some(m5), &BlockSpec::with(81, vec![tx3.clone()]));
	// fork-foreign input: X is created on main (m5), spend it on the fork before f6 creates it
	let tx_x = uni::spend_plain(&kc, &[(100, x_val)], &[(103, x_val - M)], None, 5);
	tb.add_invalid("i2:X-on-fork-f5", Some(f5), &BlockSpec::with(82, vec![tx_x]));
	// never-created input
	let tx_n = uni::spend_plain(&kc, &[(999, 12345 * M)], &[(104, 12344 * M)], None, 6);
	tb.add_invalid("i3:never-created", Some(m4), &BlockSpec::with(83, vec![tx_n]));
	// output duplicating a commitment that is unspent there: X while X is unspent (on m5)
	tb.add_invalid("i4:dup-unspent-X-on-m5", Some(m5), &BlockSpec::with(84, vec![tx4.clone()]));
	// output duplicating an unspent commitment under OTHER features: a plain output with the value and key of the
	// unspent coinbase of block 3 (spends coinbases 1 and 2)
	{
		use grin_core::core::KernelFeatures;
		use grin_core::libtx::{build, ProofBuilder};
		let pb = ProofBuilder::new(&kc);
		let tx_d = uni::tx(
			&kc,
			KernelFeatures::Plain { fee: (M as u32).into() },
			&[build::coinbase_input(REWARD, uni::kid(1)), build::coinbase_input(REWARD, uni::kid(2)), build::output(REWARD, uni::kid(3)), build::output(REWARD - M, uni::kid(105))],
			&pb,
			7,
		)
		.expect("tx duplicating a coinbase commitment");
		tb.add_invalid("i7:dup-unspent-coinbase-as-plain", Some(m4), &BlockSpec::with(87, vec![tx_d]));
	}
	// double spend inside one block: cb1 -> X and cb1 -> Z in the same body
	{
		let i = tb.add_invalid("i6:double-spend-in-block", Some(m4), &BlockSpec::with(86, vec![tx1.clone()]));
		let prev = tb.header_of(Some(m4));
		let b = &mut tb.tree.blocks[i].block;
		merge_raw(b, &tx3);
		uni::remine(b, &prev);
	}
	tb.finish()
}

/// Universe B: output created and spent on a fork that first loses, then wins; spends below and
/// above the fork point; both directions of reorg.
pub fn universe_b(sc: &uni::Scratch, variant: usize) -> Tree {
	universe_b_lifted(sc, variant, 0)
}

pub fn universe_b_lifted(sc: &uni::Scratch, variant: usize, lift: usize) -> Tree {
	let mut tb = TreeBuilder::new(sc, 12, false);
	let kc = uni::keychain(12);
	let base = lift_base(&mut tb, lift);
	let m1 = tb.add("m1", base, &BlockSpec::empty(1));
	let m2 = tb.add("m2", Some(m1), &BlockSpec::empty(2));
	let m3 = tb.add("m3", Some(m2), &BlockSpec::empty(3));
	// spend cb1 below the fork point (height 4) when variant says so
	let v = REWARD - M;
	let m4 = if variant % 2 == 0 {
		tb.add("m4", Some(m3), &BlockSpec::with(4, vec![uni::spend_coinbase(&kc, 1, REWARD, &[(100, v)], 1)]))
	} else {
		tb.add("m4", Some(m3), &BlockSpec::empty(4))
	};
	let m5 = tb.add("m5", Some(m4), &BlockSpec::empty(5));
	let m6 = tb.add("m6", Some(m5), &BlockSpec::with(6, vec![uni::spend_coinbase(&kc, 2, REWARD, &[(110, v)], 2)]));
	let _m7 = tb.add("m7", Some(m6), &BlockSpec::empty(7));
	// fork from m4: creates W from cb2 and spends it, also spends (100) if it exists
	let w = REWARD - 3 * M;
	let g5 = tb.add("g5", Some(m4), &BlockSpec::with(65, vec![uni::spend_coinbase(&kc, 2, REWARD, &[(120, w)], 3)]));
	let mut txs = vec![uni::spend_plain(&kc, &[(120, w)], &[(121, w - M)], None, 4)];
	if variant % 2 == 0 {
		txs.push(uni::spend_plain(&kc, &[(100, v)], &[(122, v - M)], None, 5));
	}
	let g6 = tb.add("g6", Some(g5), &BlockSpec::with(66, txs));
	let g7 = tb.add("g7", Some(g6), &BlockSpec::empty(67));
	let _g8 = tb.add("g8", Some(g7), &BlockSpec::empty(68));
	// invalid: spends W on main where it was never created
	tb.add_invalid("i:W-on-main", Some(m6), &BlockSpec::with(91, vec![uni::spend_plain(&kc, &[(120, w)], &[(123, w - M)], None, 6)]));
	// invalid: spends (110) (created on main at m6) on the fork
	tb.add_invalid("i:main-output-on-fork", Some(g6), &BlockSpec::with(92, vec![uni::spend_plain(&kc, &[(110, v)], &[(124, v - M)], None, 7)]));
	tb.finish()
}

/// Universe E (Options::SKIP_POW, explicit difficulties, as the repository's own fork tests): sibling blocks of
/// EQUAL SHAPE - same height, same number of inputs and outputs - that spend different outputs, with difficulties
/// chosen so that the head moves from one sibling straight to the other (a reorganisation that leaves the output
/// MMR size, the number of unspent leaves and the last leaf position unchanged), and back through longer forks.
pub fn universe_e(sc: &uni::Scratch) -> Tree {
	let mut tb = TreeBuilder::new(sc, 14, true);
	let kc = uni::keychain(14);
	let mut prev = None;
	for h in 1..=4u32 {
		prev = Some(tb.add_with_difficulty(&format!("m{}", h), prev, &BlockSpec::empty(h), 2));
	}
	let m4 = prev.unwrap();
	let v = REWARD - M;
	// three siblings at height 5, each one input and two outputs (coinbase + change)
	let a5 = tb.add_with_difficulty("a5", Some(m4), &BlockSpec::with(5, vec![uni::spend_coinbase(&kc, 1, REWARD, &[(100, v)], 1)]), 1);
	let b5 = tb.add_with_difficulty("b5", Some(m4), &BlockSpec::with(55, vec![uni::spend_coinbase(&kc, 2, REWARD, &[(102, v)], 2)]), 3);
	let _c5 = tb.add_with_difficulty("c5", Some(m4), &BlockSpec::with(65, vec![uni::spend_coinbase(&kc, 1, REWARD, &[(104, v)], 3)]), 2);
	// the lighter sibling's chain overtakes, then the heavier one's again (each again with equal shapes)
	let _a6 = tb.add_with_difficulty("a6", Some(a5), &BlockSpec::with(6, vec![uni::spend_coinbase(&kc, 2, REWARD, &[(106, v)], 4)]), 5);
	let _b6 = tb.add_with_difficulty("b6", Some(b5), &BlockSpec::with(56, vec![uni::spend_coinbase(&kc, 1, REWARD, &[(108, v)], 5)]), 4);
	// invalid on their own ancestors: the sibling's spend repeated, the sibling's output spent
	tb.add_invalid_with_difficulty("i:cb1-again-on-a5", Some(a5), &BlockSpec::with(81, vec![uni::spend_coinbase(&kc, 1, REWARD, &[(110, v)], 6)]), 9);
	tb.add_invalid_with_difficulty("i:a5-output-on-b5", Some(b5), &BlockSpec::with(82, vec![uni::spend_plain(&kc, &[(100, v)], &[(111, v - M)], None, 7)]), 9);
	tb.add_invalid_with_difficulty("i:cb2-again-on-b5", Some(b5), &BlockSpec::with(83, vec![uni::spend_coinbase(&kc, 2, REWARD, &[(112, v)], 8)]), 9);
	tb.finish()
}

struct Inv02 {
	inst: String,
}

impl Invariant for Inv02 {
	fn check(&mut self, live: &Live<'_>, prefix: &[Ev], _before: &Fp, _after: &Fp, out: &Outcome, rep: &mut Report) {
		let t = live.tree;
		let case = || case_json(&self.inst, t, prefix);
		// verdict = reference verdict
		if let Some(ok) = out.expect.ok {
			if ok != out.ok {
				let name = match prefix.last().unwrap() {
					Ev::B(i) => t.blocks[*i].name.split(':').next().unwrap().to_string(),
					e => e.show(t),
				};
				rep.violation(
					if ok { format!("verdict:valid-block-rejected:{}", name) } else { format!("verdict:invalid-block-accepted:{}", name) },
					format!("{} returned {} but the reference ledger says {} ({})", prefix.last().unwrap().show(t), if out.ok { "Ok".to_string() } else { out.err.clone() }, if ok { "accept" } else { "reject" }, out.expect.why),
					case(),
				);
			}
		}
		// unspent set = replay of the winning chain
		let head = live.chain().head().unwrap();
		let hidx = if head.last_block_h == t.gen.hash() { None } else { t.index_of(&head.last_block_h) };
		check_unspent(live, hidx, "utxo", prefix, &self.inst, rep);
		if let Ok(st) = t.state_at(hidx) {
			// enumeration by PMMR index returns exactly the unspent set
			match live.chain().unspent_outputs_by_pmmr_index(1, 10_000, None) {
				Ok((_, _, outs)) => {
					let got: BTreeSet<Vec<u8>> = outs.iter().map(|o| cbytes(&o.commitment())).collect();
					let exp: BTreeSet<Vec<u8>> = st.utxo.keys().cloned().collect();
					if got != exp {
						rep.violation("utxo:enumeration", format!("unspent_outputs_by_pmmr_index returns {} outputs, reference unspent set has {}", got.len(), exp.len()), case());
					}
				}
				Err(e) => rep.violation("utxo:enumeration-error", format!("{:?}", e), case()),
			}
			// probe: validate_inputs accepts exactly the unspent commitments
			for c in &live.commits {
				let inputs = Inputs::CommitOnly(vec![(*c).into()]);
				let ok = live.chain().validate_inputs(&inputs).is_ok();
				let exp = st.utxo.contains_key(&cbytes(c));
				if ok != exp {
					rep.violation("utxo:validate_inputs", format!("validate_inputs({}) = {} but reference unspent = {}", &crate::ev::hex(&c.0)[..16], ok, exp), case());
					break;
				}
			}
			rep.outcome(&format!("unspent{}", st.utxo.len()));
		}
	}
}

fn explore_tree(tree: &Tree, inst: &str, sc: &uni::Scratch, shard: usize, n: usize, reopen: bool, rep: &mut Report) {
	explore_tree_opts(tree, inst, sc, shard, n, reopen, Options::NONE, rep)
}

#[allow(clippy::too_many_arguments)]
fn explore_tree_opts(tree: &Tree, inst: &str, sc: &uni::Scratch, shard: usize, n: usize, reopen: bool, opts: Options, rep: &mut Report) {
	let mut inv = Inv02 { inst: inst.to_string() };
	// the lifting blocks p1..pN are applied once, below every history
	let is_lift = |i: usize| tree.blocks[i].name.starts_with('p');
	let mut prelude: Vec<Ev> = (0..tree.blocks.len()).filter(|i| is_lift(*i)).map(Ev::B).collect();
	if inst.ends_with("+hdr") {
		// headers first: the header chain of every fork is known (and header_head sits on the
		// heaviest one) before any body arrives, as during sync
		for i in 0..tree.blocks.len() {
			let valid = |k: usize| !is_lift(k) && tree.valid(k).is_ok();
			if valid(i) && !(0..tree.blocks.len()).any(|c| valid(c) && tree.blocks[c].parent == Some(i)) {
				prelude.push(Ev::HS(i));
			}
		}
	}
	let mut ex = Explorer::with_prelude(tree, sc, opts, inst, &prelude);
	ex.live_check = if reopen { 2 } else { 1 }; // thorough (= with reopen probes): probes offered to the long-lived node too
	ex.shard = (shard, n);
	// valid blocks form the histories; reference-invalid blocks are probes at every state
	let evs: Vec<Ev> = (0..tree.blocks.len()).filter(|i| !is_lift(*i) && tree.valid(*i).is_ok()).map(Ev::B).collect();
	let mut probes: Vec<Ev> = (0..tree.blocks.len()).filter(|i| tree.valid(*i).is_err()).map(Ev::B).collect();
	// read-only uses of the state as of every block of the universe (they may fail half-way: a template on an
	// invalid block, a Merkle proof as of a header below the output's creation); the unspent view must not move
	probes.extend((0..tree.blocks.len()).filter(|i| !is_lift(*i)).map(Ev::RO));
	if reopen {
		probes.push(Ev::Reopen);
	}
	ex.explore_snap(&evs, &probes, &mut inv, rep);
	let _ = std::fs::remove_dir_all(&ex.base);
}

fn forks(tier: Tier, shard: usize, n: usize) -> Report {
	uni::init_thread();
	let mut rep = Report::new();
	let sc = uni::Scratch::new("c02");
	let variants = tier.pick(1, 2);
	// lift 0: header versions 1-3 (the version transitions); lift 12: version 5 throughout
	for lift in [0usize, 12] {
		for v in 0..variants {
			let scr = &sc;
			let tag = if lift == 0 { String::new() } else { format!("+{}", lift) };
			let (ia, ib) = (format!("A{}{}", v, tag), format!("B{}{}", v, tag));
			crate::chainx::guarded(&ia.clone(), &mut rep, move |rep| {
				let ta = universe_a_lifted(scr, v, lift);
				explore_tree(&ta, &ia, scr, shard, n, tier == Tier::Thorough, rep);
			});
			crate::chainx::guarded(&ib.clone(), &mut rep, move |rep| {
				let tb = universe_b_lifted(scr, v, lift);
				explore_tree(&tb, &ib, scr, shard, n, tier == Tier::Thorough, rep);
			});
			// the lifted universes once more with every header delivered before any body
			if lift > 0 && (v == 0 || tier == Tier::Thorough) {
				let (ia, ib) = (format!("A{}{}+hdr", v, tag), format!("B{}{}+hdr", v, tag));
				crate::chainx::guarded(&ia.clone(), &mut rep, move |rep| {
					let ta = universe_a_lifted(scr, v, lift);
					explore_tree(&ta, &ia, scr, shard, n, tier == Tier::Thorough, rep);
				});
				crate::chainx::guarded(&ib.clone(), &mut rep, move |rep| {
					let tb = universe_b_lifted(scr, v, lift);
					explore_tree(&tb, &ib, scr, shard, n, tier == Tier::Thorough, rep);
				});
			}
		}
	}
	// equal-shape siblings with explicit difficulties (SKIP_POW), reopen probes in both tiers
	{
		let scr = &sc;
		crate::chainx::guarded("E", &mut rep, move |rep| {
			let te = universe_e(scr);
			explore_tree_opts(&te, "E", scr, shard, n, true, Options::SKIP_POW, rep);
		});
	}
	// sanity of the universes themselves (vacuity guard): count reference-invalid blocks
	if shard == 0 && rep.violations.is_empty() {
		let ta = universe_a(&sc, 0);
		let invalid = (0..ta.blocks.len()).filter(|i| ta.valid(*i).is_err()).count();
		rep.extra.insert("universe_A_blocks".into(), json!(ta.blocks.len()));
		rep.extra.insert("universe_A_reference_invalid_blocks".into(), json!(invalid));
		rep.sample(json!({"universe": "A0", "blocks": ta.blocks.iter().map(|b| format!("{}<-{}", b.name, b.parent.map(|p| ta.blocks[p].name.clone()).unwrap_or("genesis".into()))).collect::<Vec<_>>(),
			"inputs_per_block": ta.blocks.iter().map(|b| b.block.inputs().into_iter_commits().len()).collect::<Vec<_>>()}));
	}
	rep
}

/// Compaction clause: on a 90-block chain whose pre-horizon outputs were spent in the patterns that
/// matter to the pruner (siblings, the head block itself spending an old output), every order of
/// {compact, reopen, the next main block, a three-block fork from inside the horizon that reorgs the
/// head out} - the unspent set must stay the reference replay of the winning chain and full
/// validation must pass.
pub fn compaction(tier: Tier, shard: usize, n: usize) -> Report {
	uni::init_thread();
	let mut rep = Report::new();
	let sc = uni::Scratch::new("c02c");
	let scr = &sc;
	crate::chainx::guarded("long", &mut rep, move |rep| {
		let tree = crate::c09::universe(scr, "long");
		let prelude = crate::c09::parse_events(&tree, &["*main"]);
		let mut inv = Inv02c { inst: "long".into() };
		let mut ex = Explorer::with_prelude(&tree, scr, Options::NONE, "long", &prelude);
		ex.live_check = tier.pick(1, 2);
		ex.shard = (shard, n);
		let idx = |name: &str| tree.blocks.iter().position(|b| b.name == name).unwrap();
		let mut evs: Vec<Ev> = vec![Ev::B(idx("x91")), Ev::B(idx("y90")), Ev::B(idx("y91")), Ev::B(idx("y92")), Ev::Compact, Ev::Reopen];
		if tier == Tier::Thorough {
			evs.push(Ev::Compact);
		}
		ex.explore_snap(&evs, &[], &mut inv, rep);
		let _ = std::fs::remove_dir_all(&ex.base);
	});
	// a reorganisation whose fork point is exactly the horizon (the block a compaction keeps as the body tail):
	// 21 fork blocks from x70 delivered after Chain::compact at head x90, with a restart in between or not, must be
	// accepted, end on the fork's tip with the reference unspent set and full validation, in the same state as a
	// node that never compacted
	if shard == 0 {
		crate::chainx::guarded("long+w", &mut rep, move |rep| {
			let tree = crate::c09::universe(scr, "long+w");
			let main = crate::c09::parse_events(&tree, &["*main"]);
			let fork: Vec<Ev> = (71..=91).map(|h| Ev::B(tree.blocks.iter().position(|b| b.name == format!("w{}", h)).unwrap())).collect();
			let tip = tree.blocks.iter().position(|b| b.name == "w91");
			let mut finals: Vec<(String, Fp)> = vec![];
			let x91 = tree.blocks.iter().position(|b| b.name == "x91").unwrap();
			for variant in ["no-compaction", "compact", "compact+reopen", "header-ahead+compact", "header-ahead+compact+reopen"] {
				let d = scr.fresh("hz");
				let mut live = Live::open(&tree, &d, Options::NONE);
				for e in &main {
					let o = live.apply(e);
					assert!(o.ok, "builder: main chain refused: {}", o.err);
				}
				let mut hist: Vec<Ev> = vec![];
				if variant.starts_with("header-ahead") {
					// the header chain is one block ahead of the bodies when the compaction runs
					let o = live.apply(&Ev::H(x91));
					hist.push(Ev::H(x91));
					assert!(o.ok, "builder: header x91 refused: {}", o.err);
				}
				if variant != "no-compaction" {
					let o = live.apply(&Ev::Compact);
					hist.push(Ev::Compact);
					if !o.ok {
						rep.violation("horizon-fork:compact-failed", format!("Chain::compact = {}", o.err), json!({"instance": "long+w", "variant": variant}));
					}
				}
				if variant.ends_with("compact+reopen") {
					live.apply(&Ev::Reopen);
					hist.push(Ev::Reopen);
				}
				for e in &fork {
					let o = live.apply(e);
					hist.push(e.clone());
					rep.evaluations += 1;
					rep.transitions += 1;
					if !o.ok {
						rep.violation(
							format!("horizon-fork:valid-fork-block-rejected:{}", variant),
							format!("{}: {} (fork from the block exactly {} below the head, i.e. at the horizon) returned {}", variant, e.show(&tree), 20, o.err),
							json!({"instance": "long+w", "variant": variant, "events": hist.iter().map(|e| e.show(&tree)).collect::<Vec<_>>()}),
						);
						break;
					}
				}
				let head = live.chain().head().unwrap();
				rep.outcome(&format!("horizon-fork:{}:head-{}", variant, tree.index_of(&head.last_block_h).map(|i| tree.blocks[i].name.clone()).unwrap_or_default()));
				if tree.index_of(&head.last_block_h) == tip {
					check_unspent(&live, tip, "horizon-fork:utxo", &hist, "long+w", rep);
					if let Err(e) = live.chain().validate(false) {
						rep.violation(format!("horizon-fork:validate:{}", variant), format!("validate(false) after the reorganisation = {:?}", e), json!({"instance": "long+w", "variant": variant}));
					}
					// (the body tail is what compaction moves: not part of the comparison)
					finals.push((variant.to_string(), live.fp().only(&["head", "roots", "sizes", "utxo.", "outpos"])));
				} else if rep.violations.is_empty() {
					rep.violation(format!("horizon-fork:head-not-on-fork:{}", variant), format!("after all 21 fork blocks the head is at height {} td {}, not the fork tip", head.height, head.total_difficulty.to_num()), json!({"instance": "long+w", "variant": variant}));
				}
				drop(live);
				let _ = std::fs::remove_dir_all(&d);
			}
			for (v, f) in finals.iter().skip(1) {
				if *f != finals[0].1 {
					rep.violation(format!("horizon-fork:differs-from-uncompacted:{}", v), format!("best-chain state after the reorganisation differs from the node that never compacted: {:?}", finals[0].1.diff(f).into_iter().take(3).collect::<Vec<_>>()), json!({"instance": "long+w", "variant": v}));
				}
			}
			rep.states += finals.len() as u64;
		});
	}
	rep
}

struct Inv02c {
	inst: String,
}

impl Invariant for Inv02c {
	fn check(&mut self, live: &Live<'_>, prefix: &[Ev], before: &Fp, after: &Fp, out: &Outcome, rep: &mut Report) {
		let t = live.tree;
		let case = || case_json(&self.inst, t, prefix);
		if let Some(ok) = out.expect.ok {
			if ok != out.ok {
				rep.violation(format!("compaction:verdict:{}", prefix.last().unwrap().show(t)), format!("{} returned {} but the reference ledger says {}", prefix.last().unwrap().show(t), if out.ok { "Ok".into() } else { out.err.clone() }, if ok { "accept" } else { "reject" }), case());
			}
		}
		if matches!(prefix.last(), Some(Ev::Compact)) {
			if !out.ok {
				rep.violation("compaction:compact-error", format!("compact failed: {}", out.err), case());
			}
			// compaction leaves head, roots and the unspent view untouched
			let keys = ["head", "roots", "sizes", "utxo.", "outpos"];
			if before.only(&keys) != after.only(&keys) {
				rep.violation("compaction:changed-state", format!("compact changed chain state: {:?}", before.only(&keys).diff(&after.only(&keys)).into_iter().take(3).collect::<Vec<_>>()), case());
			}
		}
		let head = live.chain().head().unwrap();
		let hidx = t.index_of(&head.last_block_h);
		check_unspent(live, hidx, "compaction:utxo", prefix, &self.inst, rep);
		match live.chain().validate(false) {
			Ok(_) => rep.outcome("validate:ok"),
			Err(e) => rep.violation("compaction:validate", format!("validate(false) = {:?} after {}", e, prefix.last().unwrap().show(t)), case()),
		}
	}
}

impl Engine for C02 {
	fn id(&self) -> &'static str {
		"C02"
	}
	fn meta(&self, _tier: Tier) -> Meta {
		Meta {
			level: "model_checking",
			rule: "stateless exploration (replay DFS, memoised on chain fingerprint + accepted set + remaining deliveries) of every parent-before-child delivery order of fork-tree universes containing: the same coinbase spent on both forks, an output created and spent on a fork that loses then wins, a commitment created on both forks, a re-created commitment, reorgs in both directions, and invalid blocks (double spend across blocks, inside one block, never-created input, fork-foreign input, duplicate of an unspent commitment) delivered at every state where their parent is accepted; plus reopen (thorough). After every event: process_block verdict = reference-ledger verdict; get_unspent for every commitment of the universe (position and height), unspent_outputs_by_pmmr_index and validate_inputs probes = reference replay of the winning chain.",
			assumptions: vec![
				"children-before-parents orders are covered by C03; compaction interleavings by C08".into(),
				"fork trees of up to 18 blocks, fork depth <= 4".into(),
			],
			exhaustive: true,
		}
	}
	fn parts(&self, _tier: Tier) -> Vec<(&'static str, usize)> {
		vec![("forks", 12), ("compaction", 4)]
	}
	fn run_part(&self, part: &str, tier: Tier, shard: usize, n: usize) -> Report {
		match part {
			"forks" => forks(tier, shard, n),
			"compaction" => compaction(tier, shard, n),
			_ => panic!("unknown part"),
		}
	}
	fn replay(&self, case: &Value) -> Result<String, String> {
		uni::init_thread();
		let inst = case["instance"].as_str().unwrap_or("");
		let sc = uni::Scratch::new("replay");
		if inst == "long" {
			let tree = crate::c09::universe(&sc, "long");
			let mut evs: Vec<Value> = crate::c09::parse_events(&tree, &["*main"]).iter().map(|e| json!(e.show(&tree))).collect();
			evs.extend(case["events"].as_array().cloned().unwrap_or_default());
			return crate::chainx::replay_events(&tree, &json!({"events": evs}), Options::NONE, &sc);
		}
		let hdr = inst.ends_with("+hdr");
		let inst = inst.trim_end_matches("+hdr");
		let (vs, lift) = match inst[1..].split_once('+') {
			Some((a, b)) => (a, b.parse().unwrap_or(0)),
			None => (&inst[1..], 0usize),
		};
		let v: usize = vs.parse().unwrap_or(0);
		let tree = if inst.starts_with('A') { universe_a_lifted(&sc, v, lift) } else { universe_b_lifted(&sc, v, lift) };
		// the lifting blocks come first
		let mut evs: Vec<Value> = (1..=lift).map(|i| json!(format!("B(p{})", i))).collect();
		if hdr {
			let is_lift = |i: usize| tree.blocks[i].name.starts_with('p');
			for i in 0..tree.blocks.len() {
				let valid = |k: usize| !is_lift(k) && tree.valid(k).is_ok();
				if valid(i) && !(0..tree.blocks.len()).any(|c| valid(c) && tree.blocks[c].parent == Some(i)) {
					evs.push(json!(Ev::HS(i).show(&tree)));
				}
			}
		}
		evs.extend(case["events"].as_array().cloned().unwrap_or_default());
		crate::chainx::replay_events(&tree, &json!({"events": evs}), Options::NONE, &sc)
	}
}
