//! C15 — The committed unspent-output bitmap is independent of the path taken.
//! Extension seam: the real TxHashSet / Extension::{apply_block, rewind} / BitmapAccumulator of a
//! real Chain directory are driven with synthetic blocks (no signatures / range proofs: that layer
//! never checks them) so that histories span several 1024-bit chunks in milliseconds.
use crate::ev::{hash64, Report, Tier};
use crate::ledger::{cbytes, State};
use crate::refmmr::Forest;
use crate::uni;
use crate::{Engine, Meta};
use grin_chain::txhashset::{self, BitmapAccumulator};
use grin_chain::types::Tip;
use grin_core::core::block_sums::BlockSums;
use grin_chain::Chain;
use grin_core::core::hash::{Hash, Hashed};
use grin_core::core::transaction::CommitWrapper;
use grin_core::core::{Block, BlockHeader, Inputs, Output, OutputFeatures, TransactionBody, TxKernel};
use grin_util::secp::pedersen::{Commitment, RangeProof};
use serde_json::{json, Value};
use std::collections::{BTreeSet, HashSet};
use std::path::Path;
use std::sync::Arc;

pub struct C15;

/// pool of pre-computed synthetic outputs (distinct commitments)
struct Pool {
	outs: Vec<Output>,
}
impl Pool {
	fn new(n: usize) -> Pool {
		let secp = grin_util::static_secp_instance();
		let secp = secp.lock();
		let blind = grin_util::secp::key::SecretKey::from_slice(&secp, &[7u8; 32]).unwrap();
		let mut outs = Vec::with_capacity(n);
		for i in 0..n {
			let c = secp.commit(1 + i as u64, blind.clone()).unwrap();
			outs.push(Output::new(OutputFeatures::Plain, c, RangeProof::zero()));
		}
		Pool { outs }
	}
}

#[derive(Clone)]
struct SBlock {
	block: Arc<Block>,
	parent: Option<usize>,
}

/// harness-side description of the history (the synthetic fork tree and where the head is)
#[derive(Clone)]
struct Hist {
	blocks: Vec<SBlock>,
	head: Option<usize>,
	next_out: usize,
	uniq: u32,
}

impl Hist {
	fn path(&self, tip: Option<usize>) -> Vec<usize> {
		let mut p = vec![];
		let mut cur = tip;
		while let Some(i) = cur {
			p.push(i);
			cur = self.blocks[i].parent;
		}
		p.reverse();
		p
	}
	fn state_at(&self, gen: &Block, tip: Option<usize>) -> State {
		let mut s = State::genesis(gen);
		for i in self.path(tip) {
			s.apply_unchecked(&self.blocks[i].block);
		}
		s
	}
	fn header(&self, gen: &Block, i: Option<usize>) -> BlockHeader {
		match i {
			None => gen.header.clone(),
			Some(i) => self.blocks[i].block.header.clone(),
		}
	}
}

fn mmr_size(n: u64) -> u64 {
	if n == 0 {
		0
	} else {
		2 * n - n.count_ones() as u64
	}
}

/// independent reference for the bitmap commitment: chunks of 1024 bits (MSB-first bytes) up to
/// the last chunk that has a bit set, hashed as MMR leaves with their position, bagged
fn reference_root(unspent_idx: &BTreeSet<u64>) -> Hash {
	let mut f = Forest::new(true);
	if let Some(max) = unspent_idx.iter().max() {
		let n_chunks = max / 1024 + 1;
		for c in 0..n_chunks {
			let mut bytes = vec![0u8; 128];
			for i in unspent_idx.range(c * 1024..(c + 1) * 1024) {
				let b = (i % 1024) as usize;
				bytes[b / 8] |= 0x80 >> (b % 8);
			}
			f.push(&bytes);
		}
	}
	Hash::from_vec(&f.root())
}

struct Seam {
	chain: Chain,
}

impl Seam {
	fn open(dir: &Path, gen: &Block) -> Seam {
		Seam { chain: uni::open_chain(dir, gen) }
	}

	/// Build the synthetic block on `parent`: `k` new outputs and the given inputs; header sizes,
	/// roots and prev_root are those the real extension computes (so that a restart validates).
	fn build(&self, gen: &Block, hist: &Hist, parent: Option<usize>, outs: &[Output], inputs: &[Commitment], uniq: u32) -> Result<Block, String> {
		let prev = hist.header(gen, parent);
		let st = hist.state_at(gen, parent);
		let mut h = BlockHeader::default();
		// version 5 as on Mainnet today: the output root commits to the bitmap root (the Testnet schedule would
		// give version 1 at these heights, whose roots do not); nothing at this seam checks the version schedule
		h.version = grin_core::core::HeaderVersion(5);
		h.height = prev.height + 1;
		h.prev_hash = prev.hash();
		h.timestamp = prev.timestamp + chrono::Duration::seconds(60);
		h.pow.total_difficulty = prev.total_difficulty() + grin_core::pow::Difficulty::from_num(1);
		let nonces: Vec<u64> = (0..grin_core::global::proofsize())
			.map(|k| {
				let seed = format!("{}/{}/{}", prev.hash(), uniq, k);
				let hb = blake2_rfc::blake2b::blake2b(8, &[], seed.as_bytes());
				let mut b = [0u8; 8];
				b.copy_from_slice(hb.as_bytes());
				u64::from_be_bytes(b) & 0x3fff_ffff
			})
			.collect();
		h.pow.proof = grin_core::pow::Proof::new(nonces);
		h.output_mmr_size = mmr_size(st.n_outputs + outs.len() as u64);
		h.kernel_mmr_size = mmr_size(st.n_kernels + 1);
		let ins: Vec<CommitWrapper> = inputs.iter().map(|c| (*c).into()).collect();
		let body = TransactionBody::init(Inputs::CommitOnly(ins), outs, &[TxKernel::empty()], false).map_err(|e| format!("{:?}", e))?;
		let mut b = Block { header: h, body };
		// roots through a read-only extension positioned on the parent
		let (prev_root, roots) = self.with_ext(gen, hist, parent, false, |ext, batch| {
			let prev_root = ext.header_extension.root()?;
			ext.extension.apply_block(&b, ext.header_extension, batch)?;
			Ok((prev_root, ext.extension.roots()?))
		})?;
		b.header.prev_root = prev_root;
		b.header.output_root = roots.output_root(&b.header);
		b.header.range_proof_root = roots.rproof_root;
		b.header.kernel_root = roots.kernel_root;
		Ok(b)
	}

	/// Run `f` inside an extension that was first brought to `parent` exactly as
	/// pipe::rewind_and_apply_fork does (rewind to the fork point, re-apply the fork's blocks),
	/// minus the validations that synthetic blocks cannot pass.
	fn with_ext<T>(
		&self,
		gen: &Block,
		hist: &Hist,
		parent: Option<usize>,
		commit: bool,
		f: impl FnOnce(&mut txhashset::ExtensionPair<'_>, &mut grin_chain::store::Batch<'_>) -> Result<T, grin_chain::Error>,
	) -> Result<T, String> {
		let hp = self.chain.header_pmmr();
		let ts = self.chain.txhashset();
		let store = self.chain.store();
		let mut hp = hp.write();
		let mut ts = ts.write();
		// fork point between the current head and the requested parent
		let pa = hist.path(parent);
		let ph = hist.path(hist.head);
		let common = pa.iter().zip(ph.iter()).take_while(|(a, b)| a == b).count();
		let fork_point = hist.header(gen, if common == 0 { None } else { Some(pa[common - 1]) });
		let reapply: Vec<Arc<Block>> = pa[common..].iter().map(|i| hist.blocks[*i].block.clone()).collect();
		let parent_header = hist.header(gen, parent);
		let inner = |ext: &mut txhashset::ExtensionPair<'_>, batch: &mut grin_chain::store::Batch<'_>| -> Result<T, grin_chain::Error> {
			grin_chain::pipe::rewind_and_apply_header_fork(&parent_header, ext.header_extension, batch, &|_| Ok(()))?;
			ext.extension.rewind(&fork_point, batch)?;
			for fb in &reapply {
				ext.extension.apply_block(fb, ext.header_extension, batch)?;
			}
			f(ext, batch)
		};
		if commit {
			let mut batch = store.batch().map_err(|e| format!("{:?}", e))?;
			let r = txhashset::extending(&mut hp, &mut ts, &mut batch, inner).map_err(|e| format!("{:?}", e))?;
			batch.commit().map_err(|e| format!("{:?}", e))?;
			Ok(r)
		} else {
			txhashset::extending_readonly(&mut hp, &mut ts, inner).map_err(|e| format!("{:?}", e))
		}
	}

	/// Apply a built block on `parent` and make it the head (commit) or roll the unit back.
	fn apply(&self, gen: &Block, hist: &Hist, parent: Option<usize>, b: &Block, commit: bool) -> Result<(), String> {
		// header chain first (as process_block_header does)
		{
			let hp = self.chain.header_pmmr();
			let store = self.chain.store();
			let mut hp = hp.write();
			let mut batch = store.batch().map_err(|e| format!("{:?}", e))?;
			batch.save_block_header(&b.header).map_err(|e| format!("{:?}", e))?;
			let prev = hist.header(gen, parent);
			txhashset::header_extending(&mut hp, &mut batch, |ext, batch| {
				grin_chain::pipe::rewind_and_apply_header_fork(&prev, ext, batch, &|_| Ok(()))?;
				ext.apply_header(&b.header)?;
				Ok(())
			})
			.map_err(|e| format!("header: {:?}", e))?;
			batch.save_header_head(&Tip::from_header(&b.header)).map_err(|e| format!("{:?}", e))?;
			batch.commit().map_err(|e| format!("{:?}", e))?;
		}
		let hp = self.chain.header_pmmr();
		let ts = self.chain.txhashset();
		let store = self.chain.store();
		let pa = hist.path(parent);
		let ph = hist.path(hist.head);
		let common = pa.iter().zip(ph.iter()).take_while(|(a, b)| a == b).count();
		let fork_point = hist.header(gen, if common == 0 { None } else { Some(pa[common - 1]) });
		let reapply: Vec<Arc<Block>> = pa[common..].iter().map(|i| hist.blocks[*i].block.clone()).collect();
		let parent_header = hist.header(gen, parent);
		let mut hp = hp.write();
		let mut ts = ts.write();
		let mut batch = store.batch().map_err(|e| format!("{:?}", e))?;
		txhashset::extending(&mut hp, &mut ts, &mut batch, |ext, batch| {
			grin_chain::pipe::rewind_and_apply_header_fork(&parent_header, ext.header_extension, batch, &|_| Ok(()))?;
			ext.extension.rewind(&fork_point, batch)?;
			for fb in &reapply {
				ext.extension.apply_block(fb, ext.header_extension, batch)?;
			}
			ext.extension.apply_block(b, ext.header_extension, batch)?;
			if !commit {
				ext.extension.force_rollback();
			}
			Ok(())
		})
		.map_err(|e| format!("extending: {:?}", e))?;
		if commit {
			batch.save_block(b).map_err(|e| format!("{:?}", e))?;
			// block sums are not checked at this seam; a placeholder keeps start-up from
			// recomputing (and rejecting) them for synthetic blocks
			let sums = store.get_block_sums(&gen.hash()).unwrap_or(BlockSums::default());
			batch.save_block_sums(&b.hash(), sums).map_err(|e| format!("{:?}", e))?;
			batch.save_body_head(&Tip::from_header(&b.header)).map_err(|e| format!("{:?}", e))?;
			batch.commit().map_err(|e| format!("{:?}", e))?;
		}
		Ok(())
	}

	fn accumulator(&self) -> Result<BitmapAccumulator, String> {
		let hp = self.chain.header_pmmr();
		let ts = self.chain.txhashset();
		let mut hp = hp.write();
		let mut ts = ts.write();
		txhashset::extending_readonly(&mut hp, &mut ts, |ext, _| Ok(ext.extension.bitmap_accumulator())).map_err(|e| format!("{:?}", e))
	}

	fn bitmap_root(&self) -> Hash {
		self.chain.txhashset().read().roots().expect("roots").output_roots.bitmap_root
	}
}

#[derive(Clone, Debug, PartialEq, Eq, Hash, PartialOrd, Ord)]
enum Sel {
	None,
	FirstOfChunk0,
	LastOfChunk0,
	FirstOfChunk1,
	EveryOtherOfOldestChunk,
	AllOfLastPartialChunk,
	AllOfOldestChunk,
	AllOfChunk1,
}

#[derive(Clone, Debug, PartialEq, Eq, Hash)]
enum Op {
	/// new block with k outputs and a spend selection on top of `parent` (None = current head)
	Apply { k: usize, sel: Sel, parent: Option<Option<usize>>, commit: bool },
	Reopen,
	/// a block on the head whose MMR files were all synced and whose database batch was lost (the process died
	/// between the two): db directory of before, header MMR and txhashset files of after; then start-up
	Killed { k: usize, sel: Sel },
}

fn show(op: &Op) -> String {
	match op {
		Op::Apply { k, sel, parent, commit } => format!("apply(+{} -{:?}{}{})", k, sel, match parent { None => "".to_string(), Some(None) => " on genesis".to_string(), Some(Some(i)) => format!(" on b{}", i) }, if *commit { "" } else { " ROLLBACK" }),
		Op::Reopen => "reopen".into(),
		Op::Killed { k, sel } => format!("killed-before-db-commit(+{} -{:?})", k, sel),
	}
}

/// the leaf indices selected for spending, from the unspent index set of the parent state
fn select(sel: &Sel, unspent: &BTreeSet<u64>, n_outputs: u64) -> Vec<u64> {
	let in_chunk = |c: u64| -> Vec<u64> { unspent.range(c * 1024..(c + 1) * 1024).cloned().collect() };
	let oldest_nonempty = unspent.iter().next().map(|i| i / 1024);
	match sel {
		Sel::None => vec![],
		Sel::FirstOfChunk0 => in_chunk(0).into_iter().take(1).collect(),
		Sel::LastOfChunk0 => in_chunk(0).into_iter().rev().take(1).collect(),
		Sel::FirstOfChunk1 => in_chunk(1).into_iter().take(1).collect(),
		Sel::EveryOtherOfOldestChunk => oldest_nonempty.map(|c| in_chunk(c).into_iter().step_by(2).collect()).unwrap_or_default(),
		Sel::AllOfLastPartialChunk => {
			if n_outputs == 0 {
				vec![]
			} else {
				in_chunk((n_outputs - 1) / 1024)
			}
		}
		Sel::AllOfOldestChunk => oldest_nonempty.map(in_chunk).unwrap_or_default(),
		Sel::AllOfChunk1 => in_chunk(1),
	}
}

struct X<'a> {
	sc: &'a uni::Scratch,
	gen: Block,
	pool: Pool,
	ks: Vec<usize>,
	sels: Vec<Sel>,
	depth: usize,
	memo: HashSet<u64>,
	me: usize,
	n: usize,
	/// operations every history starts with (not counted in the depth bound): exploration from a
	/// non-initial state
	prefix_ops: Vec<Op>,
	/// replay: the one history to execute (operation strings)
	only: Option<Vec<String>>,
	/// offer the killed-before-db-commit operation
	killed: bool,
	killed_sels: Vec<Sel>,
}

fn check(seam: &Seam, gen: &Block, hist: &Hist, ops: &[String], stage: &str, rep: &mut Report) -> bool {
	let st = hist.state_at(gen, hist.head);
	let unspent: BTreeSet<u64> = st.utxo.values().map(|u| u.leaf).collect();
	let case = json!({"ops": ops});
	let mut ok = true;
	let got = seam.bitmap_root();
	// (1) from scratch with the code's own constructor (the property's wording)
	let mut fresh = BitmapAccumulator::new();
	fresh.init(unspent.iter().cloned(), st.n_outputs).expect("init");
	if got != fresh.root() {
		rep.violation(format!("bitmap:{}:differs-from-scratch", stage), format!("bitmap root after {:?} differs from an accumulator initialised from scratch over the {} unspent of {} outputs", ops.last(), unspent.len(), st.n_outputs), case.clone());
		ok = false;
	}
	// (2) independent construction of the commitment
	if fresh.root() != reference_root(&unspent) && got != reference_root(&unspent) {
		rep.violation(format!("bitmap:{}:differs-from-reference", stage), "bitmap root differs from the independently built chunk MMR".to_string(), case.clone());
		ok = false;
	}
	// (3) the accumulator's own bit set is the unspent set
	match seam.accumulator() {
		Ok(acc) => {
			let bm = acc.as_bitmap().expect("as_bitmap");
			let got_set: BTreeSet<u64> = bm.iter().map(|x| x as u64).collect();
			if got_set != unspent {
				rep.violation(format!("bitmap:{}:bit-set", stage), format!("accumulator bit set has {} entries, reference unspent set {}", got_set.len(), unspent.len()), case.clone());
				ok = false;
			}
		}
		Err(e) => {
			rep.violation(format!("bitmap:{}:accumulator-error", stage), e, case.clone());
			ok = false;
		}
	}
	// (4) the unspent view itself
	let mut probe = 0;
	for (c, u) in st.utxo.iter().step_by(97) {
		let mut cc = [0u8; 33];
		cc.copy_from_slice(c);
		match seam.chain.get_unspent(Commitment(cc)) {
			Ok(Some((_, p))) if p.pos == u.pos1 => {}
			other => {
				rep.violation(format!("bitmap:{}:get_unspent", stage), format!("get_unspent of an unspent synthetic output = {:?}", other.map(|o| o.map(|x| x.1.pos))), case.clone());
				ok = false;
				break;
			}
		}
		probe += 1;
	}
	let _ = (probe, cbytes);
	ok
}

fn dfs(x: &mut X<'_>, dir: &Path, hist: &Hist, ops: &mut Vec<String>, rep: &mut Report, range: (usize, usize)) {
	if ops.len() >= x.depth + x.prefix_ops.len() {
		return;
	}
	// candidate operations
	let mut cands: Vec<Op> = vec![];
	let parents: Vec<Option<Option<usize>>> = {
		let mut v = vec![None];
		// fork from any proper ancestor of the head (rewind across chunk boundaries)
		let p = hist.path(hist.head);
		if !p.is_empty() {
			v.push(Some(None));
			for i in &p[..p.len() - 1] {
				v.push(Some(Some(*i)));
			}
		}
		v
	};
	for parent in &parents {
		for k in &x.ks {
			for sel in &x.sels {
				cands.push(Op::Apply { k: *k, sel: sel.clone(), parent: *parent, commit: true });
			}
		}
	}
	cands.push(Op::Apply { k: x.ks[0], sel: Sel::LastOfChunk0, parent: None, commit: false });
	if x.only.is_some() {
		// replay: a rolled-back unit of any size the tiers use
		for k in &x.ks[1..] {
			cands.push(Op::Apply { k: *k, sel: Sel::LastOfChunk0, parent: None, commit: false });
		}
	}
	if !ops.is_empty() && ops.last().map(|s| s.as_str()) != Some("reopen") {
		cands.push(Op::Reopen);
	}
	if x.killed && (x.only.is_some() || ops.iter().filter(|o| o.starts_with("killed")).count() < 2) {
		// (replay offers every size and selection; exploration a narrow alphabet, at most two kills per history)
		let (kks, ksels): (Vec<usize>, Vec<Sel>) = if x.only.is_some() { (x.ks.clone(), x.sels.clone()) } else { (vec![x.ks[0]], x.killed_sels.clone()) };
		for k in &kks {
			for sel in &ksels {
				if *sel != Sel::None {
					cands.push(Op::Killed { k: *k, sel: sel.clone() });
				}
			}
		}
	}
	if ops.len() < x.prefix_ops.len() {
		cands = vec![x.prefix_ops[ops.len()].clone()];
	}
	if let Some(only) = &x.only {
		let want = only.get(ops.len()).cloned().unwrap_or_default();
		cands.retain(|c| show(c) == want);
	}
	let size = range.1 - range.0;
	let kk = cands.len().max(1);
	for (ci, op) in cands.iter().enumerate() {
		let child_range = if size <= 1 {
			range
		} else if kk <= size {
			(range.0 + ci * size / kk, range.0 + (ci + 1) * size / kk)
		} else {
			let s = range.0 + ci % size;
			(s, s + 1)
		};
		if x.me < child_range.0 || x.me >= child_range.1 {
			continue;
		}
		let mut h2 = hist.clone();
		let d = x.sc.fresh("d");
		uni::copy_dir(dir, &d);
		let mut skip = false;
		let mut killed_pending = false;
		ops.push(show(op));
		let mut ok = true;
		{
			let seam = Seam::open(&d, &x.gen);
			// restart clause: the freshly opened directory must show the same commitment
			if !check(&seam, &x.gen, hist, ops, "after-reopen", rep) {
				ok = false;
			}
			match op {
				Op::Reopen => {}
				Op::Killed { k, sel } => {
					let st = hist.state_at(&x.gen, hist.head);
					let unspent: BTreeSet<u64> = st.utxo.values().map(|u| u.leaf).collect();
					let spend_idx = select(sel, &unspent, st.n_outputs);
					if spend_idx.is_empty() || h2.next_out + k > x.pool.outs.len() {
						skip = true;
					} else {
						let by_leaf: std::collections::HashMap<u64, Vec<u8>> = st.utxo.iter().map(|(c, u)| (u.leaf, c.clone())).collect();
						let inputs: Vec<Commitment> = spend_idx
							.iter()
							.map(|l| {
								let mut cc = [0u8; 33];
								cc.copy_from_slice(&by_leaf[l]);
								Commitment(cc)
							})
							.collect();
						let outs = &x.pool.outs[h2.next_out..h2.next_out + k];
						h2.uniq += 1;
						match seam.build(&x.gen, hist, hist.head, outs, &inputs, h2.uniq) {
							Ok(b) => {
								// the database as it is before the block (LMDB commits are atomic: a batch that was
								// never committed leaves exactly this)
								uni::copy_dir(&d.join("multi_lmdb"), &d.join("multi_lmdb.before"));
								match seam.apply(&x.gen, hist, hist.head, &b, true) {
									Ok(()) => killed_pending = true,
									Err(e) => {
										rep.violation("seam:apply-failed", format!("{} failed: {}", show(op), e), json!({"ops": ops.clone()}));
										ok = false;
									}
								}
							}
							Err(e) => {
								rep.violation("seam:build-failed", format!("{} failed: {}", show(op), e), json!({"ops": ops.clone()}));
								ok = false;
							}
						}
					}
				}
				Op::Apply { k, sel, parent, commit } => {
					let par = parent.unwrap_or(hist.head);
					let st = hist.state_at(&x.gen, par);
					let unspent: BTreeSet<u64> = st.utxo.values().map(|u| u.leaf).collect();
					let spend_idx = select(sel, &unspent, st.n_outputs);
					if spend_idx.is_empty() && *sel != Sel::None {
						skip = true; // selection does not exist in this state
					} else if h2.next_out + k > x.pool.outs.len() {
						skip = true;
					} else {
						let by_leaf: std::collections::HashMap<u64, Vec<u8>> = st.utxo.iter().map(|(c, u)| (u.leaf, c.clone())).collect();
						let inputs: Vec<Commitment> = spend_idx
							.iter()
							.map(|l| {
								let mut cc = [0u8; 33];
								cc.copy_from_slice(&by_leaf[l]);
								Commitment(cc)
							})
							.collect();
						let outs = &x.pool.outs[h2.next_out..h2.next_out + k];
						h2.uniq += 1;
						match seam.build(&x.gen, hist, par, outs, &inputs, h2.uniq) {
							Ok(b) => match seam.apply(&x.gen, hist, par, &b, *commit) {
								Ok(()) => {
									if *commit {
										h2.next_out += k;
										h2.blocks.push(SBlock { block: Arc::new(b), parent: par });
										h2.head = Some(h2.blocks.len() - 1);
									}
								}
								Err(e) => {
									rep.violation("seam:apply-failed", format!("{} failed: {}", show(op), e), json!({"ops": ops.clone()}));
									ok = false;
								}
							},
							Err(e) => {
								rep.violation("seam:build-failed", format!("{} failed: {}", show(op), e), json!({"ops": ops.clone()}));
								ok = false;
							}
						}
					}
				}
			}
			if !skip && ok && !killed_pending {
				rep.transitions += 1;
				rep.evaluations += 1;
				ok = check(&seam, &x.gen, &h2, ops, match op { Op::Reopen => "reopen", Op::Apply { commit: false, .. } => "rollback", Op::Apply { parent: Some(_), .. } => "fork-rewind", _ => "apply" }, rep);
				let st = h2.state_at(&x.gen, h2.head);
				rep.outcome(&format!("{}:chunks{}", match op { Op::Reopen => "reopen", Op::Apply { commit: false, .. } => "rollback", Op::Apply { parent: Some(_), .. } => "fork", _ => "apply" }, (st.n_outputs + 1023) / 1024));
			}
		}
		if killed_pending && ok {
			// the chain object is closed: put the database of before back, keep the MMR files of after, start up
			h2 = hist.clone();
			h2.uniq += 1;
			let _ = std::fs::remove_dir_all(d.join("multi_lmdb"));
			std::fs::rename(d.join("multi_lmdb.before"), d.join("multi_lmdb")).expect("restore db");
			rep.transitions += 1;
			rep.evaluations += 1;
			match uni::open_chain_with(&d, &x.gen, Arc::new(grin_chain::types::NoopAdapter {})) {
				Err(e) => {
					rep.violation("bitmap:killed:init-failed", format!("start-up after {} = Err({:?})", show(op), e), json!({"ops": ops.clone()}));
					ok = false;
				}
				Ok(chain) => {
					let seam = Seam { chain };
					let want = hist.header(&x.gen, hist.head).hash();
					let got = seam.chain.head().map(|t| t.last_block_h);
					if got.as_ref().ok() != Some(&want) {
						rep.violation("bitmap:killed:head", format!("start-up after {}: head {:?}, expected the head of before {}", show(op), got, want), json!({"ops": ops.clone()}));
						ok = false;
					} else {
						ok = check(&seam, &x.gen, &h2, ops, "killed-restart", rep);
					}
					let st = h2.state_at(&x.gen, h2.head);
					rep.outcome(&format!("killed:chunks{}", (st.n_outputs + 1023) / 1024));
				}
			}
		}
		if !skip && ok {
			let st = h2.state_at(&x.gen, h2.head);
			let key = hash64(&(st.utxo.values().map(|u| u.leaf).collect::<Vec<_>>(), st.n_outputs, h2.blocks.len(), h2.head, x.depth + x.prefix_ops.len() - ops.len(), x.prefix_ops.len(), ops.iter().filter(|o| o.starts_with("killed")).count()));
			if x.memo.insert(key) {
				rep.states += 1;
				rep.distinct += 1;
				rep.state_keys.insert(key);
				if rep.samples.len() < 3 && ops.len() >= 3 {
					rep.sample(json!({"ops": ops.clone(), "outputs": st.n_outputs, "unspent": st.utxo.len()}));
				}
				dfs(x, &d, &h2, ops, rep, child_range);
			}
		}
		ops.pop();
		let _ = std::fs::remove_dir_all(&d);
	}
}

fn run(tier: Tier, shard: usize, n: usize) -> Report {
	uni::init_thread();
	// Testnet limits: a stored block of ~1000 outputs must be readable back from the db during
	// rewinds (the AutomatedTesting block weight limit is 250, i.e. 11 outputs). Nothing at this
	// seam depends on PoW or header rules.
	grin_core::global::set_local_chain_type(grin_core::global::ChainTypes::Testnet);
	let mut rep = Report::new();
	let sc = uni::Scratch::new("c15");
	// the Testnet genesis (start-up looks for the chain type's own genesis header)
	let gen = grin_core::genesis::genesis_test();
	let root = sc.fresh("root");
	{
		let c = uni::open_chain(&root, &gen);
		drop(c);
	}
	let (ks, sels, depth): (Vec<usize>, Vec<Sel>, usize) = match tier {
		Tier::Quick => (vec![600, 1024], vec![Sel::None, Sel::LastOfChunk0, Sel::AllOfLastPartialChunk, Sel::AllOfOldestChunk, Sel::AllOfChunk1], 3),
		// (the full product of four sizes and eight selections at depth 4 did not finish within 50 minutes on 16 cores:
		// depth 4 over two sizes and six selections here, the remaining sizes and selections at depth 3 below)
		Tier::Thorough => (vec![600, 1025], vec![Sel::None, Sel::LastOfChunk0, Sel::FirstOfChunk1, Sel::AllOfLastPartialChunk, Sel::AllOfOldestChunk, Sel::AllOfChunk1], 4),
	};
	rep.extra.insert("bound_depth".into(), json!(depth));
	let mut x = X { sc: &sc, gen, pool: Pool::new((depth + 2) * 1025 + 8), ks, sels, depth, memo: HashSet::new(), me: shard, n, prefix_ops: vec![], only: None, killed: false, killed_sels: vec![] };
	let hist = Hist { blocks: vec![], head: None, next_out: 0, uniq: 0 };
	let mut ops = vec![];
	dfs(&mut x, &root, &hist, &mut ops, &mut rep, (0, n));
	if tier == Tier::Thorough {
		x.ks = vec![1, 1023, 1025];
		x.sels = vec![Sel::None, Sel::FirstOfChunk0, Sel::LastOfChunk0, Sel::FirstOfChunk1, Sel::EveryOtherOfOldestChunk, Sel::AllOfLastPartialChunk, Sel::AllOfOldestChunk, Sel::AllOfChunk1];
		x.depth = 3;
		x.memo.clear();
		let mut ops = vec![];
		dfs(&mut x, &root, &hist, &mut ops, &mut rep, (0, n));
		x.depth = depth;
	}
	// second start: a state that already spans two chunks (one block of 1025 outputs), so that
	// histories such as [block, block spending in chunk 0, fork below both] fit the depth bound
	x.prefix_ops = vec![Op::Apply { k: 1025, sel: Sel::None, parent: None, commit: true }];
	x.killed = true;
	x.killed_sels = vec![Sel::FirstOfChunk0, Sel::LastOfChunk0, Sel::FirstOfChunk1];
	if tier == Tier::Quick {
		x.ks = vec![600];
		x.sels = vec![Sel::None, Sel::FirstOfChunk0, Sel::LastOfChunk0, Sel::FirstOfChunk1];
	} else {
		x.ks = vec![600, 1025];
		x.sels = vec![Sel::None, Sel::FirstOfChunk0, Sel::LastOfChunk0, Sel::FirstOfChunk1, Sel::AllOfLastPartialChunk];
	}
	let mut ops = vec![];
	dfs(&mut x, &root, &hist, &mut ops, &mut rep, (0, n));
	// third start: the same two-chunk state driven with one-output blocks, so that spends make the number of
	// unspent outputs fall far below the number of leaves while old chunks keep unspent leaves at high indices
	// (what a restart rebuilds the accumulator from is the leaf set and a size)
	x.ks = vec![1];
	x.sels = vec![Sel::None, Sel::EveryOtherOfOldestChunk, Sel::LastOfChunk0, Sel::AllOfChunk1];
	x.killed_sels = vec![Sel::EveryOtherOfOldestChunk, Sel::LastOfChunk0, Sel::AllOfChunk1];
	// (the start state itself was expanded by the second start with another alphabet)
	x.memo.clear();
	let mut ops = vec![];
	dfs(&mut x, &root, &hist, &mut ops, &mut rep, (0, n));
	// fourth start: four chunks (three blocks of 1025 outputs), so that incremental updates begin in the fourth chunk
	// and beyond while older chunks hold unspent outputs (chunk indices and positions in the chunk MMR differ from
	// the fourth chunk on: 0, 1, 3, 4, 7 ...)
	x.prefix_ops = vec![
		Op::Apply { k: 1025, sel: Sel::None, parent: None, commit: true },
		Op::Apply { k: 1025, sel: Sel::None, parent: None, commit: true },
		Op::Apply { k: 1025, sel: Sel::None, parent: None, commit: true },
	];
	x.ks = vec![600];
	x.sels = vec![Sel::None, Sel::FirstOfChunk0, Sel::AllOfLastPartialChunk];
	x.killed_sels = vec![Sel::FirstOfChunk0];
	x.depth = if tier == Tier::Quick { 2 } else { 3 };
	x.memo.clear();
	let mut ops = vec![];
	dfs(&mut x, &root, &hist, &mut ops, &mut rep, (0, n));
	let _ = x.n;
	rep
}

impl Engine for C15 {
	fn id(&self) -> &'static str {
		"C15"
	}
	fn meta(&self, _tier: Tier) -> Meta {
		Meta {
			level: "model_checking",
			rule: "explicit-state exploration (DFS over directory snapshots) of the real TxHashSet/Extension/BitmapAccumulator of a chain directory driven through the extension seam with synthetic blocks: alphabet {apply a block with k new outputs (k in {600,1024} quick / {1,600,1023,1025} thorough) and a spend selection (none, first/last of chunk 0, first of chunk 1, every other leaf of the oldest chunk, all of the last partial chunk, all of the oldest chunk, all of chunk 1) on the head or on any ancestor of the head (= rewind across chunk boundaries, then re-apply), the same as a rolled-back unit, reopen}, every sequence up to the depth bound, from the empty state and from a state that already holds one block of 1025 outputs (two chunks). After every step, and after reopening the copy: the committed bitmap root equals (1) a BitmapAccumulator initialised from scratch over the reference unspent index set, (2) an independently built chunk MMR with its own hashing, and the accumulator's bit set equals the reference unspent set; a rolled-back unit changes nothing.",
			assumptions: vec![
				"the seam replicates pipe::rewind_and_apply_fork minus signature/range-proof/sum validation, which this layer never consults; headers carry the roots the real extension computes so that start-up validation passes".into(),
				"depth 3 (quick) / 4 (thorough); output counts up to 4 chunks".into(),
				"the 'block with a tampered output_root is rejected' clause is checked by C06 (late:output_root-flip at every state)".into(),
			],
			exhaustive: true,
		}
	}
	fn parts(&self, _tier: Tier) -> Vec<(&'static str, usize)> {
		vec![("seam", 16)]
	}
	fn run_part(&self, _part: &str, tier: Tier, shard: usize, n: usize) -> Report {
		run(tier, shard, n)
	}
	fn replay(&self, case: &Value) -> Result<String, String> {
		uni::init_thread();
		grin_core::global::set_local_chain_type(grin_core::global::ChainTypes::Testnet);
		let only: Vec<String> = case["ops"].as_array().ok_or("no ops")?.iter().filter_map(|x| x.as_str().map(|s| s.to_string())).collect();
		let sc = uni::Scratch::new("c15r");
		let gen = grin_core::genesis::genesis_test();
		let root = sc.fresh("root");
		{
			let c = uni::open_chain(&root, &gen);
			drop(c);
		}
		let all_sels = vec![Sel::None, Sel::FirstOfChunk0, Sel::LastOfChunk0, Sel::FirstOfChunk1, Sel::EveryOtherOfOldestChunk, Sel::AllOfLastPartialChunk, Sel::AllOfOldestChunk, Sel::AllOfChunk1];
		let depth = only.len();
		let mut x = X { sc: &sc, gen, pool: Pool::new((depth + 1) * 1025 + 8), ks: vec![1, 600, 1023, 1024, 1025], sels: all_sels, depth, memo: HashSet::new(), me: 0, n: 1, prefix_ops: vec![], only: Some(only.clone()), killed: true, killed_sels: vec![] };
		let hist = Hist { blocks: vec![], head: None, next_out: 0, uniq: 0 };
		let mut rep = Report::new();
		let mut ops = vec![];
		dfs(&mut x, &root, &hist, &mut ops, &mut rep, (0, 1));
		if rep.transitions < only.len() as u64 && rep.violations.is_empty() {
			return Err(format!("history {:?} could not be re-executed ({} of {} steps)", only, rep.transitions, only.len()));
		}
		match rep.violations.first() {
			Some(v) => Err(format!("{}: {}", v.key, v.what)),
			None => Ok(format!("{} steps, bitmap commitment equals the from-scratch accumulator after each", only.len())),
		}
	}
}
