//! Controlled scheduler (CHESS-style) for real OS threads: exactly one registered thread runs at a
//! time; at every scheduling point (util::RwLock acquisition, LMDB writer lock, polling loops,
//! labelled points, thread start/exit) the scheduler decides who runs next. Lock state is
//! mirrored so that a thread whose request cannot be granted is disabled until a release, which
//! makes deadlocks observable as "no thread enabled". Schedules are sequences of choices
//! (index into the enabled list); exploration is iterative preemption bounding (see c17.rs).
use grin_util::verif::Sched;
use std::cell::Cell;
use std::collections::{BTreeSet, HashMap};
use std::sync::{Arc, Condvar, Mutex};
use std::time::{Duration, Instant};

/// read transactions of harness threads known to be open right now (incremented inside `Readable::read` of a
/// harness value type, i.e. while `Store::get_ser` has its LMDB read transaction open)
pub static OPEN_READS: std::sync::atomic::AtomicU32 = std::sync::atomic::AtomicU32::new(0);
/// how often the map was enlarged while such a read was open
pub static RESIZE_UNDER_READ: std::sync::atomic::AtomicU32 = std::sync::atomic::AtomicU32::new(0);

thread_local! {
	static TID: Cell<Option<usize>> = Cell::new(None);
}

#[derive(Clone, Debug, PartialEq)]
enum Req {
	Start,
	Acquire { lock: usize, write: bool },
	Try { lock: usize, write: bool },
	Resource(String),
	Poll(String),
	Point(String),
}

#[derive(Clone, Debug, PartialEq)]
enum St {
	NotStarted,
	Ready(Req),
	Running,
	Finished,
}

#[derive(Default, Debug, Clone)]
struct LockSt {
	writer: Option<usize>,
	readers: Vec<usize>,
	/// threads that attempted a write and are parked: they block new readers (parking_lot)
	waiting_writers: BTreeSet<usize>,
}

#[derive(Clone, Debug)]
pub struct Step {
	/// thread ids that could be chosen at this point, in canonical order
	pub enabled: Vec<usize>,
	/// index into `enabled`
	pub chosen: usize,
	/// the thread that was running when this point was reached (None at the very start)
	pub running: Option<usize>,
	/// what the chosen thread was about to do
	pub what: String,
}

#[derive(Debug, Clone)]
pub enum Verdict {
	Completed,
	Deadlock(String),
	Livelock(String),
	Divergence(String),
	Stuck(String),
	/// the code under test was about to do something whose precondition is violated (the execution is
	/// stopped before it does: what follows would be undefined behaviour)
	Unsafe(String),
}

struct Inner {
	threads: Vec<St>,
	names: Vec<String>,
	current: Option<usize>,
	last_ran: Option<usize>,
	locks: HashMap<usize, LockSt>,
	/// stable small ids for lock addresses, in order of first use (for readable traces)
	lock_names: HashMap<usize, usize>,
	resources: HashMap<String, usize>,
	try_result: HashMap<usize, bool>,
	choices: Vec<usize>,
	trace: Vec<Step>,
	verdict: Option<Verdict>,
	poll_streak: usize,
	panics: Vec<(usize, String)>,
	last_progress: Instant,
	/// fair scheduling: a thread that yielded (poll) is not scheduled again before every thread
	/// that was enabled at that moment has taken a step (or is no longer enabled)
	wait_for: Vec<BTreeSet<usize>>,
}

pub struct Scheduler {
	inner: Mutex<Inner>,
	cv: Condvar,
}

impl Inner {
	fn lock_name(&mut self, l: usize) -> usize {
		let n = self.lock_names.len();
		*self.lock_names.entry(l).or_insert(n)
	}
	fn grantable(&self, t: usize, lock: usize, write: bool) -> bool {
		match self.locks.get(&lock) {
			None => true,
			Some(ls) => {
				if write {
					ls.writer.is_none() && ls.readers.is_empty()
				} else {
					// a reader is blocked by a writer and by any *other* thread parked for write
					ls.writer.is_none() && ls.waiting_writers.iter().all(|w| *w == t)
				}
			}
		}
	}
	/// threads that may be chosen now
	fn enabled(&self) -> Vec<usize> {
		let mut v = vec![];
		for (t, st) in self.threads.iter().enumerate() {
			if let St::Ready(req) = st {
				let ok = match req {
					Req::Start | Req::Point(_) | Req::Poll(_) | Req::Try { .. } => true,
					Req::Acquire { lock, write } => {
						if *write {
							// an ungrantable write attempt is still a transition (the writer parks and
							// from then on blocks new readers), unless it is already parked
							self.grantable(t, *lock, true) || !self.locks.get(lock).map(|l| l.waiting_writers.contains(&t)).unwrap_or(false)
						} else {
							self.grantable(t, *lock, false)
						}
					}
					Req::Resource(name) => !self.resources.contains_key(name),
				};
				if ok {
					v.push(t);
				}
			}
		}
		// fairness (1): a thread that yielded waits for the threads that were enabled then
		let raw = v.clone();
		v.retain(|t| !self.wait_for.get(*t).map(|w| w.iter().any(|u| raw.contains(u))).unwrap_or(false));
		if v.is_empty() {
			v = raw;
		}
		// fairness (2): a thread inside a polling loop yields to every thread that can make progress
		let is_poll = |t: &usize| matches!(self.threads[*t], St::Ready(Req::Poll(_)));
		if v.iter().any(|t| !is_poll(t)) {
			v.retain(|t| !is_poll(t));
		}
		v
	}
	fn describe(&mut self, req: &Req) -> String {
		match req {
			Req::Start => "start".into(),
			Req::Acquire { lock, write } => format!("{}(L{})", if *write { "write" } else { "read" }, self.lock_name(*lock)),
			Req::Try { lock, write } => format!("try_{}(L{})", if *write { "write" } else { "read" }, self.lock_name(*lock)),
			Req::Resource(n) => format!("acquire({})", n.split(':').next().unwrap_or("res")),
			Req::Poll(l) => format!("poll({})", l),
			Req::Point(l) => format!("point({})", l),
		}
	}
	/// Pick the next thread to run (may take several steps when a chosen writer only parks).
	fn dispatch(&mut self) {
		loop {
			if self.verdict.is_some() {
				return;
			}
			let enabled = self.enabled();
			if enabled.is_empty() {
				if self.threads.iter().all(|s| *s == St::Finished) {
					self.verdict = Some(Verdict::Completed);
				} else {
					let who: Vec<String> = self
						.threads
						.clone()
						.iter()
						.enumerate()
						.filter(|(_, s)| **s != St::Finished)
						.map(|(t, s)| {
							let d = match s {
								St::Ready(r) => {
									let r = r.clone();
									self.describe(&r)
								}
								o => format!("{:?}", o),
							};
							format!("{} waits for {}", self.names[t], d)
						})
						.collect();
					let holders: Vec<String> = self
						.locks
						.clone()
						.iter()
						.filter(|(_, l)| l.writer.is_some() || !l.readers.is_empty())
						.map(|(k, l)| format!("L{}: writer {:?} readers {:?} parked writers {:?}", self.lock_name(*k), l.writer.map(|t| self.names[t].clone()), l.readers.iter().map(|t| self.names[*t].clone()).collect::<Vec<_>>(), l.waiting_writers.iter().map(|t| self.names[*t].clone()).collect::<Vec<_>>()))
						.collect();
					self.verdict = Some(Verdict::Deadlock(format!("{} ; {} ; resources {:?}", who.join(", "), holders.join(", "), self.resources.iter().map(|(k, t)| format!("{} held by {}", k.split(':').next().unwrap_or(""), self.names[*t])).collect::<Vec<_>>())));
				}
				return;
			}
			let step = self.trace.len();
			if step > 4000 {
				// an execution of these harnesses has a few hundred points at most: thousands of
				// steps mean the threads only ever wait for each other (polling loops)
				let tail: Vec<String> = self.trace.iter().rev().take(14).map(|s| s.what.clone()).collect();
				self.verdict = Some(Verdict::Livelock(format!("no thread finished within 4000 scheduling steps; last steps (newest first): {:?}", tail)));
				return;
			}
			// canonical order: the thread that ran last first (no preemption), then ascending ids;
			// polling threads last
			let mut order: Vec<usize> = vec![];
			if let Some(l) = self.last_ran {
				if enabled.contains(&l) {
					order.push(l);
				}
			}
			for t in &enabled {
				if !order.contains(t) {
					order.push(*t);
				}
			}
			let is_poll = |s: &St| matches!(s, St::Ready(Req::Poll(_)));
			let threads = self.threads.clone();
			order.sort_by_key(|t| is_poll(&threads[*t]) as u8);
			let idx = if step < self.choices.len() {
				let c = self.choices[step];
				if c >= order.len() {
					self.verdict = Some(Verdict::Divergence(format!("replay choice {} at step {} but only {} threads enabled", c, step, order.len())));
					return;
				}
				c
			} else {
				0
			};
			let t = order[idx];
			let req = match &self.threads[t] {
				St::Ready(r) => r.clone(),
				_ => unreachable!(),
			};
			for w in self.wait_for.iter_mut() {
				w.remove(&t);
			}
			if matches!(req, Req::Poll(_)) {
				// everything that could run now goes first next time
				let others: BTreeSet<usize> = self
					.threads
					.iter()
					.enumerate()
					.filter(|(u, st)| *u != t && matches!(st, St::Ready(_)))
					.map(|(u, _)| u)
					.collect();
				while self.wait_for.len() <= t {
					self.wait_for.push(BTreeSet::new());
				}
				self.wait_for[t] = others;
				self.poll_streak += 1;
				if self.poll_streak > 200 {
					self.verdict = Some(Verdict::Livelock(format!("only polling threads made steps for 200 rounds (last: {})", self.names[t])));
					return;
				}
			} else {
				self.poll_streak = 0;
			}
			let d = self.describe(&req);
			let what = format!("{}:{}", self.names[t], d);
			self.trace.push(Step { enabled: order.clone(), chosen: idx, running: self.last_ran, what });
			self.last_progress = Instant::now();
			// apply
			let mut runs = true;
			match &req {
				Req::Acquire { lock, write } => {
					if self.grantable(t, *lock, *write) {
						let ls = self.locks.entry(*lock).or_default();
						ls.waiting_writers.remove(&t);
						if *write {
							ls.writer = Some(t);
						} else {
							ls.readers.push(t);
						}
					} else {
						// write attempt that has to park
						self.locks.entry(*lock).or_default().waiting_writers.insert(t);
						runs = false;
					}
				}
				Req::Try { lock, write } => {
					let ok = self.grantable(t, *lock, *write);
					if ok {
						let ls = self.locks.entry(*lock).or_default();
						if *write {
							ls.writer = Some(t);
						} else {
							ls.readers.push(t);
						}
					}
					self.try_result.insert(t, ok);
				}
				Req::Resource(name) => {
					self.resources.insert(name.clone(), t);
				}
				_ => {}
			}
			if runs {
				self.threads[t] = St::Running;
				self.current = Some(t);
				self.last_ran = Some(t);
				return;
			}
			// parked writer: it stays Ready (re-evaluated after releases); choose again
			self.last_ran = Some(t);
		}
	}
}

impl Scheduler {
	pub fn new(names: &[&str], choices: Vec<usize>) -> Arc<Scheduler> {
		Arc::new(Scheduler {
			inner: Mutex::new(Inner {
				threads: vec![St::NotStarted; names.len()],
				names: names.iter().map(|s| s.to_string()).collect(),
				current: None,
				last_ran: None,
				locks: HashMap::new(),
				lock_names: HashMap::new(),
				resources: HashMap::new(),
				try_result: HashMap::new(),
				choices,
				trace: vec![],
				verdict: None,
				poll_streak: 0,
				panics: vec![],
				last_progress: Instant::now(),
				wait_for: vec![BTreeSet::new(); names.len()],
			}),
			cv: Condvar::new(),
		})
	}

	/// Block the calling registered thread at a scheduling point until it is chosen.
	fn point(&self, req: Req) {
		let t = match TID.with(|c| c.get()) {
			Some(t) => t,
			None => return, // unregistered threads pass through
		};
		let mut g = self.inner.lock().unwrap();
		if g.verdict.is_some() && !matches!(g.verdict, Some(Verdict::Completed)) {
			drop(g);
			park_forever();
		}
		let is_start = req == Req::Start;
		g.threads[t] = St::Ready(req);
		if !is_start {
			// (the very first dispatch is made by `run` once every thread has registered, so that
			// the start of an execution does not depend on OS timing)
			g.current = None;
			g.dispatch();
		}
		self.cv.notify_all();
		loop {
			if g.current == Some(t) {
				return;
			}
			if g.verdict.is_some() && !matches!(g.verdict, Some(Verdict::Completed)) {
				// the execution was declared dead (deadlock / livelock / divergence): this thread
				// must never run grin code again
				drop(g);
				park_forever();
			}
			g = self.cv.wait(g).unwrap();
		}
	}

	/// Run the given thread bodies under this scheduler; returns (verdict, trace, panics).
	pub fn run(self: &Arc<Self>, bodies: Vec<Box<dyn FnOnce() + Send>>) -> (Verdict, Vec<Step>, Vec<(String, String)>) {
		grin_util::verif::install_sched(Some(self.clone() as Arc<dyn Sched>));
		let mut handles = vec![];
		for (t, body) in bodies.into_iter().enumerate() {
			let me = self.clone();
			let h = std::thread::Builder::new()
				.name(format!("gv-sched-{}", t))
				.spawn(move || {
					TID.with(|c| c.set(Some(t)));
					crate::uni::init_thread();
					me.point(Req::Start);
					let r = std::panic::catch_unwind(std::panic::AssertUnwindSafe(body));
					let mut g = me.inner.lock().unwrap();
					if let Err(e) = r {
						let msg = if let Some(s) = e.downcast_ref::<String>() { s.clone() } else if let Some(s) = e.downcast_ref::<&str>() { s.to_string() } else { "panic".into() };
						g.panics.push((t, msg));
					}
					g.threads[t] = St::Finished;
					// anything this thread still holds in the model is gone with it
					for ls in g.locks.values_mut() {
						if ls.writer == Some(t) {
							ls.writer = None;
						}
						ls.readers.retain(|r| *r != t);
						ls.waiting_writers.remove(&t);
					}
					g.resources.retain(|_, h| *h != t);
					g.current = None;
					g.dispatch();
					me.cv.notify_all();
				})
				.expect("spawn");
			handles.push(h);
		}
		// wait for a verdict, with a watchdog for un-modelled blocking
		let verdict = {
			let mut g = self.inner.lock().unwrap();
			while g.threads.iter().any(|s| *s == St::NotStarted) {
				let (ng, _) = self.cv.wait_timeout(g, Duration::from_millis(50)).unwrap();
				g = ng;
			}
			g.last_progress = Instant::now();
			g.dispatch();
			self.cv.notify_all();
			// every thread must have reached its Start point before the first dispatch makes sense:
			// threads register themselves by calling point(Start); the first one to arrive dispatches,
			// possibly before the others exist. To make the start deterministic, wait until all are
			// Ready/Running/Finished, re-dispatching from scratch.
			loop {
				if let Some(v) = &g.verdict {
					break v.clone();
				}
				let (ng, to) = self.cv.wait_timeout(g, Duration::from_millis(200)).unwrap();
				g = ng;
				if to.timed_out() && g.last_progress.elapsed() > Duration::from_secs(180) && g.verdict.is_none() {
					let choices: Vec<usize> = g.trace.iter().map(|s| s.chosen).collect();
					let tail: Vec<String> = g.trace.iter().rev().take(8).map(|s| s.what.clone()).collect();
					let v = Verdict::Stuck(format!("no scheduling point reached for 180 s; threads: {:?}; choices so far {:?}; last steps (newest first) {:?}", g.threads, choices, tail));
					g.verdict = Some(v.clone());
					break v;
				}
			}
		};
		let completed = matches!(verdict, Verdict::Completed);
		if completed {
			for h in handles {
				let _ = h.join();
			}
		}
		grin_util::verif::install_sched(None);
		let g = self.inner.lock().unwrap();
		let panics = g.panics.iter().map(|(t, m)| (g.names[*t].clone(), m.clone())).collect();
		(verdict, g.trace.clone(), panics)
	}
}

fn park_forever() -> ! {
	loop {
		std::thread::park();
		std::thread::sleep(Duration::from_secs(3600));
	}
}

impl Sched for Scheduler {
	fn acquire(&self, lock: usize, write: bool) {
		self.point(Req::Acquire { lock, write });
	}
	fn try_acquire(&self, lock: usize, write: bool) -> bool {
		let t = match TID.with(|c| c.get()) {
			Some(t) => t,
			None => return true,
		};
		self.point(Req::Try { lock, write });
		self.inner.lock().unwrap().try_result.remove(&t).unwrap_or(true)
	}
	fn release(&self, lock: usize, write: bool) {
		let t = match TID.with(|c| c.get()) {
			Some(t) => t,
			None => return,
		};
		let mut g = self.inner.lock().unwrap();
		if let Some(ls) = g.locks.get_mut(&lock) {
			if write {
				if ls.writer == Some(t) {
					ls.writer = None;
				}
			} else if let Some(p) = ls.readers.iter().position(|r| *r == t) {
				ls.readers.remove(p);
			}
		}
	}
	fn resource_acquire(&self, name: &str) {
		self.point(Req::Resource(name.to_string()));
	}
	fn resource_release(&self, name: &str) {
		let t = match TID.with(|c| c.get()) {
			Some(t) => t,
			None => return,
		};
		let mut g = self.inner.lock().unwrap();
		if g.resources.get(name) == Some(&t) {
			g.resources.remove(name);
		}
	}
	fn poll(&self, label: &str) -> bool {
		if TID.with(|c| c.get()).is_none() {
			return false;
		}
		self.point(Req::Poll(label.to_string()));
		true
	}
	fn point(&self, label: &str) {
		Scheduler::point(self, Req::Point(label.to_string()));
		// the store is about to enlarge its memory map (nothing else runs before it does): LMDB requires that
		// no transaction is open in the process then; the harness counts the reads it knows to be in flight
		if label == "lmdb:resize" && OPEN_READS.load(std::sync::atomic::Ordering::SeqCst) > 0 && TID.with(|c| c.get()).is_some() {
			RESIZE_UNDER_READ.fetch_add(1, std::sync::atomic::Ordering::SeqCst);
			// stop here: remapping under a live reader is undefined behaviour (it may crash this process)
			let mut g = self.inner.lock().unwrap();
			if g.verdict.is_none() {
				g.verdict = Some(Verdict::Unsafe("the store is about to enlarge its memory map (env.resize) while a get_ser of another thread has its LMDB read transaction open".into()));
			}
			drop(g);
			self.cv.notify_all();
			park_forever();
		}
	}
	fn thread_spawn(&self, name: &str) -> Option<usize> {
		TID.with(|c| c.get())?;
		let mut g = self.inner.lock().unwrap();
		g.threads.push(St::Ready(Req::Start));
		g.names.push(name.to_string());
		g.wait_for.push(BTreeSet::new());
		Some(g.threads.len() - 1)
	}
	fn thread_begin(&self, ticket: usize) {
		TID.with(|c| c.set(Some(ticket)));
		crate::uni::init_thread();
		let mut g = self.inner.lock().unwrap();
		loop {
			if g.current == Some(ticket) {
				return;
			}
			if g.verdict.is_some() && !matches!(g.verdict, Some(Verdict::Completed)) {
				drop(g);
				park_forever();
			}
			g = self.cv.wait(g).unwrap();
		}
	}
	fn thread_end(&self) {
		let t = match TID.with(|c| c.get()) {
			Some(t) => t,
			None => return,
		};
		let mut g = self.inner.lock().unwrap();
		g.threads[t] = St::Finished;
		for ls in g.locks.values_mut() {
			if ls.writer == Some(t) {
				ls.writer = None;
			}
			ls.readers.retain(|r| *r != t);
			ls.waiting_writers.remove(&t);
		}
		g.resources.retain(|_, h| *h != t);
		g.current = None;
		g.dispatch();
		self.cv.notify_all();
		TID.with(|c| c.set(None));
	}
}
