//! Evidence, violation and known-finding plumbing shared by all engines.
use serde_json::{json, Map, Value};
use std::collections::{BTreeMap, BTreeSet};
use std::hash::{Hash, Hasher};
use std::time::Instant;

#[derive(Clone, Copy, PartialEq, Eq, Debug)]
pub enum Tier {
	Quick,
	Thorough,
}
impl Tier {
	pub fn name(&self) -> &'static str {
		match self {
			Tier::Quick => "quick",
			Tier::Thorough => "thorough",
		}
	}
	pub fn pick<T>(&self, q: T, t: T) -> T {
		match self {
			Tier::Quick => q,
			Tier::Thorough => t,
		}
	}
}

/// One violation: `key` identifies the failing input / call site / history (matched against
/// known_findings.json), `what` is the human description, `case` the replayable descriptor.
#[derive(Clone, Debug)]
pub struct Violation {
	pub key: String,
	pub what: String,
	pub case: Value,
}

/// What one engine part (or one shard of it) covered.
#[derive(Default, Clone, Debug)]
pub struct Report {
	pub evaluations: u64,
	/// number of distinct non-trivial cases, as counted by the engine
	pub distinct: u64,
	pub states: u64,
	pub transitions: u64,
	pub samples: Vec<Value>,
	/// outcome class -> count (accept/reject classes, final fingerprints ...)
	pub outcomes: BTreeMap<String, u64>,
	pub violations: Vec<Violation>,
	pub notes: Vec<String>,
	/// free-form per-part numbers (bounds completed etc.)
	pub extra: BTreeMap<String, Value>,
	/// set when a cap (wall/RSS/branch) stopped the part before the stated bound
	pub capped: Option<String>,
	/// canonical keys of visited states (explicit-state engines): unioned across shards so
	/// that `states`/`distinct` count distinct states, not per-worker visits
	pub state_keys: BTreeSet<u64>,
	/// max number of distinct violation keys kept (0 = default 50)
	pub violation_cap: usize,
}

impl Report {
	pub fn new() -> Report {
		Report::default()
	}
	pub fn outcome(&mut self, class: &str) {
		*self.outcomes.entry(class.to_string()).or_insert(0) += 1;
	}
	pub fn sample(&mut self, v: Value) {
		if self.samples.len() < 6 {
			self.samples.push(v);
		}
	}
	pub fn violation(&mut self, key: impl Into<String>, what: impl Into<String>, case: Value) {
		let key = key.into();
		// keep the list bounded: one per key, at most 50
		let cap = if self.violation_cap == 0 { 50 } else { self.violation_cap };
		if self.violations.iter().any(|v| v.key == key) || self.violations.len() >= cap {
			return;
		}
		self.violations.push(Violation {
			key,
			what: what.into(),
			case,
		});
	}
	pub fn merge(&mut self, o: Report) {
		self.evaluations += o.evaluations;
		self.distinct += o.distinct;
		self.states += o.states;
		self.transitions += o.transitions;
		for s in o.samples {
			self.sample(s);
		}
		for (k, v) in o.outcomes {
			*self.outcomes.entry(k).or_insert(0) += v;
		}
		if o.violation_cap > self.violation_cap {
			self.violation_cap = o.violation_cap;
		}
		for v in o.violations {
			self.violation(v.key, v.what, v.case);
		}
		for n in o.notes {
			if !self.notes.contains(&n) {
				self.notes.push(n);
			}
		}
		for (k, v) in o.extra {
			match (self.extra.get(&k).cloned(), &v) {
				(Some(Value::Number(a)), Value::Number(b)) if a.is_u64() && b.is_u64() => {
					// numeric extras are summed across shards unless named max_*
					let (a, b) = (a.as_u64().unwrap(), b.as_u64().unwrap());
					let r = if k.starts_with("max_") || k.starts_with("bound_") {
						a.max(b)
					} else {
						a + b
					};
					self.extra.insert(k, json!(r));
				}
				_ => {
					self.extra.insert(k, v);
				}
			}
		}
		if self.capped.is_none() {
			self.capped = o.capped;
		}
		for k in o.state_keys {
			self.state_keys.insert(k);
		}
	}
	/// for explicit-state parts: make states/distinct the size of the unioned key set
	pub fn settle_states(&mut self) {
		if !self.state_keys.is_empty() {
			self.states = self.state_keys.len() as u64;
			self.distinct = self.states;
		}
	}
	pub fn to_json(&self) -> Value {
		json!({
			"evaluations": self.evaluations, "distinct": self.distinct,
			"states": self.states, "transitions": self.transitions,
			"samples": self.samples, "outcomes": self.outcomes,
			"violations": self.violations.iter().map(|v| json!({"key": v.key, "what": v.what, "case": v.case})).collect::<Vec<_>>(),
			"notes": self.notes, "extra": self.extra, "capped": self.capped,
			"state_keys": self.state_keys.iter().collect::<Vec<_>>(),
			"violation_cap": self.violation_cap,
		})
	}
	pub fn from_json(v: &Value) -> Report {
		let mut r = Report::new();
		r.evaluations = v["evaluations"].as_u64().unwrap_or(0);
		r.distinct = v["distinct"].as_u64().unwrap_or(0);
		r.states = v["states"].as_u64().unwrap_or(0);
		r.transitions = v["transitions"].as_u64().unwrap_or(0);
		r.samples = v["samples"].as_array().cloned().unwrap_or_default();
		if let Some(m) = v["outcomes"].as_object() {
			for (k, x) in m {
				r.outcomes.insert(k.clone(), x.as_u64().unwrap_or(0));
			}
		}
		if let Some(a) = v["violations"].as_array() {
			for x in a {
				r.violations.push(Violation {
					key: x["key"].as_str().unwrap_or("").to_string(),
					what: x["what"].as_str().unwrap_or("").to_string(),
					case: x["case"].clone(),
				});
			}
		}
		if let Some(a) = v["notes"].as_array() {
			r.notes = a
				.iter()
				.filter_map(|x| x.as_str().map(|s| s.to_string()))
				.collect();
		}
		if let Some(m) = v["extra"].as_object() {
			for (k, x) in m {
				r.extra.insert(k.clone(), x.clone());
			}
		}
		r.capped = v["capped"].as_str().map(|s| s.to_string());
		r.violation_cap = v["violation_cap"].as_u64().unwrap_or(0) as usize;
		if let Some(a) = v["state_keys"].as_array() {
			r.state_keys = a.iter().filter_map(|x| x.as_u64()).collect();
		}
		r
	}
}

/// output root (evidence/, replays/): /verif unless GV_OUT is set (builder workspaces)
pub fn out_root() -> String {
	std::env::var("GV_OUT").unwrap_or_else(|_| "/verif".to_string())
}

pub fn hash64<T: Hash>(t: &T) -> u64 {
	let mut h = std::collections::hash_map::DefaultHasher::new();
	t.hash(&mut h);
	h.finish()
}

pub fn hex(b: &[u8]) -> String {
	b.iter().map(|x| format!("{:02x}", x)).collect()
}
pub fn unhex(s: &str) -> Vec<u8> {
	(0..s.len() / 2)
		.map(|i| u8::from_str_radix(&s[2 * i..2 * i + 2], 16).unwrap())
		.collect()
}

#[derive(Debug)]
struct Known {
	property: String,
	key: String,
	what: String,
}

fn load_known() -> Vec<Known> {
	let p = format!("{}/known_findings.json", out_root());
	let p = if std::path::Path::new(&p).exists() { p } else { "/verif/known_findings.json".to_string() };
	let mut out = vec![];
	if let Ok(s) = std::fs::read_to_string(p) {
		if let Ok(v) = serde_json::from_str::<Value>(&s) {
			if let Some(a) = v["findings"].as_array() {
				for x in a {
					out.push(Known {
						property: x["property"].as_str().unwrap_or("").to_string(),
						key: x["key"].as_str().unwrap_or("").to_string(),
						what: x["what"].as_str().unwrap_or("").to_string(),
					});
				}
			}
		}
	}
	out
}

/// Finalises a property run: writes evidence, prints KNOWN-FINDING / VIOLATION lines,
/// returns the exit code.
pub struct Finish<'a> {
	pub prop: &'a str,
	pub tier: Tier,
	pub seed: u64,
	pub level: &'a str,
	pub rule: &'a str,
	pub assumptions: Vec<String>,
	pub exhaustive: bool,
	pub start: Instant,
}

pub fn finish(f: Finish, parts: Vec<(String, Report)>) -> i32 {
	let known = load_known();
	let mut total = Report::new();
	total.violation_cap = parts.iter().map(|(_, r)| r.violation_cap).max().unwrap_or(0);
	let mut per_part = Map::new();
	for (name, r) in &parts {
		let mut pj = Map::new();
		pj.insert("evaluations".into(), json!(r.evaluations));
		pj.insert("distinct_nontrivial".into(), json!(r.distinct));
		if r.states > 0 {
			pj.insert("states".into(), json!(r.states));
			pj.insert("transitions".into(), json!(r.transitions));
		}
		pj.insert("outcome_classes".into(), json!(r.outcomes));
		for (k, v) in &r.extra {
			pj.insert(k.clone(), v.clone());
		}
		if let Some(c) = &r.capped {
			pj.insert("capped".into(), json!(c));
		}
		per_part.insert(name.clone(), Value::Object(pj));
		let mut rr = r.clone();
		// tag samples and outcome classes with the part name
		rr.samples = rr
			.samples
			.into_iter()
			.map(|s| json!({"part": name, "case": s}))
			.collect();
		rr.outcomes = rr
			.outcomes
			.into_iter()
			.map(|(k, v)| (format!("{}:{}", name, k), v))
			.collect();
		rr.extra.clear();
		total.merge(rr);
	}
	// round-robin the samples so that every part is represented
	let mut samples: Vec<Value> = vec![];
	let mut idx = 0;
	loop {
		let mut any = false;
		for (name, r) in &parts {
			if let Some(s) = r.samples.get(idx) {
				any = true;
				if samples.len() < 12 {
					samples.push(json!({"part": name, "case": s}));
				}
			}
		}
		idx += 1;
		if !any || samples.len() >= 12 {
			break;
		}
	}

	let mut real: Vec<&Violation> = vec![];
	let mut known_hit: BTreeSet<String> = BTreeSet::new();
	for v in &total.violations {
		if let Some(k) = known
			.iter()
			.find(|k| k.property == f.prop && v.key == k.key)
		{
			known_hit.insert(format!("{} [{}]", k.what, k.key));
		} else {
			real.push(v);
		}
	}
	for k in &known_hit {
		println!("KNOWN-FINDING: property={} {}", f.prop, k);
	}
	let mut replay_paths = vec![];
	if !real.is_empty() {
		let dir = format!("{}/replays/{}", out_root(), f.prop);
		let _ = std::fs::create_dir_all(&dir);
		for v in &real {
			let path = format!("{}/{:016x}.json", dir, hash64(&v.key));
			let body = json!({"property": f.prop, "key": v.key, "what": v.what, "case": v.case});
			let _ = std::fs::write(&path, serde_json::to_string_pretty(&body).unwrap());
			replay_paths.push(path);
		}
	}
	let capped = total.capped.clone();
	let exhaustive = f.exhaustive && capped.is_none();
	let mut cov = Map::new();
	cov.insert("evaluations".into(), json!(total.evaluations.max(total.transitions)));
	cov.insert("distinct_nontrivial".into(), json!(total.distinct));
	cov.insert("rule".into(), json!(f.rule));
	cov.insert("samples".into(), json!(samples));
	if total.states > 0 || f.level == "model_checking" {
		cov.insert("states".into(), json!(total.states));
		cov.insert("transitions".into(), json!(total.transitions));
		// every transition is executed on the real implementation: there is no separate model
		cov.insert(
			"traces_validated_against_impl".into(),
			json!(total.transitions),
		);
	}
	cov.insert("exhaustive".into(), json!(exhaustive));
	cov.insert("distinct_outcome_classes".into(), json!(total.outcomes.len()));
	cov.insert("parts".into(), Value::Object(per_part));
	if let Some(c) = &capped {
		cov.insert("capped".into(), json!(c));
	}
	if !total.notes.is_empty() {
		cov.insert("notes".into(), json!(total.notes));
	}
	cov.insert(
		"known_findings_hit".into(),
		json!(known_hit.iter().collect::<Vec<_>>()),
	);
	let ev = json!({
		"property_id": f.prop,
		"tier": f.tier.name(),
		"seed": f.seed,
		"level": f.level,
		"coverage": Value::Object(cov),
		"assumptions": f.assumptions,
		"wall_s": f.start.elapsed().as_secs_f64(),
		"violations": real.len(),
	});
	let _ = std::fs::create_dir_all(format!("{}/evidence", out_root()));
	let path = format!("{}/evidence/{}.json", out_root(), f.prop);
	std::fs::write(&path, serde_json::to_string_pretty(&ev).unwrap()).expect("write evidence");
	println!(
		"{} {}: evaluations={} distinct={} states={} transitions={} outcome_classes={} violations={} known={} wall={:.1}s{}",
		f.prop,
		f.tier.name(),
		total.evaluations,
		total.distinct,
		total.states,
		total.transitions,
		total.outcomes.len(),
		real.len(),
		known_hit.len(),
		f.start.elapsed().as_secs_f64(),
		capped.map(|c| format!(" CAPPED({})", c)).unwrap_or_default()
	);
	if !real.is_empty() {
		for (k, (v, p)) in real.iter().zip(replay_paths.iter()).enumerate() {
			if k < 12 {
				let w: String = v.what.chars().take(400).collect();
				println!("  violation: {} :: {}", v.key, w);
			}
			println!("VIOLATION property={} replay={}", f.prop, p);
		}
		return 1;
	}
	0
}
