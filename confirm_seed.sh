#!/bin/bash
# confirm_seed.sh <seedname e.g. c02a> <crate dir e.g. chain> : re-run an agent's demonstration with and
# without its change and the full suite with the change, in the agent's scratch worktree; writes
# /tmp/seed_<name>_out/confirm.json
n=$1; crate=$2
D=/tmp/seed_$n; O=/tmp/seed_${n}_out
export CARGO_NET_OFFLINE=true CARGO_TARGET_DIR=$D/target
cd $D || exit 2
cp $O/demo_test.rs $D/$crate/tests/seed_demo_$n.rs
pkg=grin_$crate
cargo test -p $pkg --offline --test seed_demo_$n > $O/confirm_demo_with.log 2>&1; with=$?
# take the change out and put it back with patch files (git stash is shared by all worktrees of /repo: two
# seed worktrees stashing at the same time would pop each other's change)
git diff > $O/.confirm_change.diff
git apply -R $O/.confirm_change.diff
cargo test -p $pkg --offline --test seed_demo_$n > $O/confirm_demo_without.log 2>&1; without=$?
git apply $O/.confirm_change.diff
rm -f $D/$crate/tests/seed_demo_$n.rs
cargo test --workspace --no-fail-fast --offline > $O/confirm_suite_with.log 2>&1; suite=$?
fails=$(grep -E "^test .* FAILED" $O/confirm_suite_with.log | grep -v test_store_indices | wc -l)
passed=$(awk '/^test result/{p+=$4} END{print p}' $O/confirm_suite_with.log)
echo "{\"seed\":\"$n\",\"demo_with_change_exit\":$with,\"demo_without_change_exit\":$without,\"suite_with_change_exit\":$suite,\"suite_failures_other_than_store_indices\":$fails,\"suite_passed\":$passed}" > $O/confirm.json
cat $O/confirm.json
