#!/bin/bash
# keep_seed.sh <seedname> <check result text...> : store a confirmed seeded change under /verif/seeded/<name>/
n=$1; shift; res="$*"
O=/tmp/seed_${n}_out; K=/verif/seeded/$n
[ -f $O/confirm.json ] || { echo "no confirm.json for $n"; exit 1; }
mkdir -p $K
cp $O/patch.diff $K/patch.diff
cp $O/demo_test.rs $K/demo_test.rs 2>/dev/null || cp $O/demo* $K/ 2>/dev/null
python3 - "$n" "$res" <<'PY'
import json,sys
n,res=sys.argv[1],sys.argv[2]
O='/tmp/seed_%s_out'%n
try: meta=json.load(open(O+'/meta.json'))
except Exception as e: meta={'note':'agent meta.json unreadable: %s'%e}
conf=json.load(open(O+'/confirm.json'))
meta['confirmed_by_maintainer']=conf
meta['confirmed_how']='confirm_seed.sh: demo with change (must fail), demo without (must pass), cargo test --workspace with the change (must pass) in the scratch worktree'
meta['check_result']=res
json.dump(meta,open('/verif/seeded/%s/meta.json'%n,'w'),indent=1)
PY
git -C /repo worktree remove --force /tmp/seed_$n 2>/dev/null; rm -rf /tmp/seed_$n
echo kept $n
