#!/usr/bin/env python3
"""Generates MANIFEST.json from the table below (kept in one place so it stays valid)."""
import json, subprocess

ALL = ["C%02d" % i for i in range(1, 21)]

# property -> (category, technique, engine, text, note, design_ref)
CHECKS = {
 "C01": ("model_checking",
         "bounded-exhaustive enumeration of body shapes x every single-field corruption against a reference balance checker over known openings (objects); snapshot exploration of fork-universe histories with sum invariants on every state (histories)",
         "c01",
         "Objects: every shape inputs 0-2 x outputs 1-3 x kernels 1-2 x offset {0,k} (quick 36 shapes with rotating kernel variant; thorough the full product with Plain/HeightLocked/NRD on two worlds) as a transaction and as a block body with coinbase on a real chain, plus every applicable entry of a closed corruption catalogue (amount, fee, offset, dropped/duplicated/foreign kernel, swapped or foreign proofs and signatures, excess with an H component, coinbase amount/flag forgeries, split or diverted reward), re-rooted and re-mined so that only the targeted rule can fail. Transaction::validate, Block::validate and Chain::process_block must accept iff a reference over the openings (integer values, 256-bit scalars mod n written in the harness; never touches a commitment) accepts; after every accepted block validate(true/false), stored block sums and the total offset equal the values computed from the openings. Histories: on every state of the C02 fork universes Chain::validate passes and get_block_sums of every best-chain block equals the sums over the reference unspent set and kernels.",
         "The reference never sums commitments; secp commit_sum is used only to turn reference scalars into the expected stored sums. Wide bodies (33 kernels in quick; 31, 32, 33, 34, 60 in thorough) carry every corruption at every kernel, so batched signature verification is covered at every position; the reference does not model block weight, so wide bodies stop where the heaviest corruption still fits the AutomatedTesting weight limit.",
         "DESIGN.md §4 C01"),
 "C02": ("model_checking",
         "explicit-state exploration of delivery histories on the real Chain (snapshot DFS with fingerprint memoisation, invalid blocks as probes at every state) against a reference ledger",
         "c02",
         "Every parent-before-child delivery history of fork-tree universes (same coinbase spent on both forks, output created and spent on a fork that loses then wins, the same commitment on both forks, re-created commitments, reorgs in both directions) is executed on the real Chain; at every reached state every reference-invalid block (double spend across blocks and inside one block, never-created and fork-foreign inputs, duplicate of an unspent commitment) is delivered as a probe. After every event process_block's verdict must equal the reference ledger's, and get_unspent of every commitment of the universe (position and height), unspent_outputs_by_pmmr_index and validate_inputs must equal the replay of the winning chain; closing and reopening must reproduce the state. Exhaustive over the stated universes and orders.",
         "Reference ledger written from the property text (src/ledger.rs); orphan orders are C03; each universe is explored at header versions 1-3, lifted by 12 blocks to version 5, and lifted with every header delivered before any body; every new state's history is also executed on one long-lived Chain object (live cross-check); the compaction part runs a 90-block chain (head block spends an old output whose MMR sibling is spent) through every order of {compact, reopen, next block, 3-block fork that reorgs the head out}.",
         "DESIGN.md §4 C02"),
 "C03": ("model_checking",
         "stateless exploration (replay DFS with memoisation) of every delivery order over every small fork tree x difficulty vector on the real Chain, fork-choice model as oracle",
         "c03",
         "All fork trees up to 3 (quick) / 4 (thorough) blocks up to isomorphism with every difficulty vector from the alphabet (SKIP_POW universes as in the repo's fork tests) and real-PoW fork universes; every order of process_block / process_block_header / duplicate / sync_block_headers events including children before parents. After every event: head is an accepted block with accepted ancestors, moved only to strictly more work, has the greatest work among accepted blocks and equals the reference fork choice, reported Next/Fork/Reorg status and fork point equal the model's, verdict and accepted set equal the orphan model's; at quiescence with a unique maximum the best-chain state equals a twin fed the winning path only and is identical over all orders.",
         "Orphan pool within capacity; trees <= 4 blocks; difficulty alphabets {1,3} / {1,2,4}.",
         "DESIGN.md §4 C03"),
 "C04": ("exploration",
         "bounded-exhaustive enumeration: every height x mutation operator x {raw, re-mined} x entry point on real-PoW chains against a reference header-rule function; every difficulty window within a deviation bound against a u128 reference retarget",
         "c04",
         "On real-PoW AutomatedTesting chains of 16 blocks (versions 1-5, DMA->WTEMA switch) every height x 35 single-field operators x {raw, re-mined} is offered to process_block_header, process_block, sync_block_headers (as the k-th of a batch) and UntrustedBlockHeader::read on a fresh snapshot; accept iff a reference written from the property text (own header serialisation, blake2b, siphash/Cuckatoo check, proof difficulty, header MMR, retarget) accepts; rejected headers leave header_head, header MMR and head unchanged. next_difficulty is compared with a u128 reference on all 61-entry windows within <=2 (quick) / <=3 (thorough) deviations of the regular baseline, all short windows with pre-genesis padding, on all four chain types and every fork era, with the minimum/damp/clamp bounds and determinism; header_version / graph_weight at every fork boundary.",
         "Generator restricted to windows a valid chain can produce (difficulty sums below 2^58; see evidence assumptions). edge_bits 29 cannot be re-mined here (raw variant only).",
         "DESIGN.md §4 C04"),
 "C05": ("exploration",
         "bounded-exhaustive enumeration: every strictly ascending 8-tuple of tiny Cuckoo graphs for each of the 5 graph definitions against an explicit-graph reference; closed near-miss lists on solver-found cycles",
         "c05",
         "For edge_bits 3 and 4 (quick; plus 5 in thorough: 10 518 300 tuples per seed) every ascending 8-tuple is verified by the real PoWContext::verify of Cuckatoo/Cuckaroo/Cuckarood/Cuckaroom/Cuckarooz and by a reference that builds the graph from its own siphash-2-4 and decides 'one simple cycle through all edges' by degree/connectivity (cross-checked by an independent DFS enumerator); accept sets must be equal in both directions. Every reference-found 8-cycle at edge_bits 4..12 (and 42-cycles at edge_bits 15) gets the full closed near-miss list (each nonce replaced by every other edge, transpositions, duplicates, out of range, wrong count, unions of shorter cycles, figure-eights, paths). verify_size variant selection per chain type/height/edge_bits is an exhaustive table; Proof write/read over all edge_bits x all padding patterns; to_difficulty against the formula. Every real-code call runs in a forked child under a CPU watchdog (non-termination is a verdict).",
         "Reference siphash checked against the official vectors; Mainnet-size graphs (2^29+) cannot be solved here: variant selection above edge_bits 29 is observed through the published Cuckatoo vectors only; heights >= 65536 hard-fork intervals are outside the domain.",
         "DESIGN.md §4 C05"),
 "C06": ("model_checking",
         "snapshot exploration of delivery histories with a closed failure-stage catalogue delivered as probes at every reached state; before/after fingerprint and twin differential oracles",
         "c06",
         "At every state of every delivery history of a two-fork universe with spends and reorgs in both directions, every applicable corrupted block of a closed catalogue (PoW, header rules, kernel signature, range proof, kernel offset, coinbase flags, wrong roots / MMR sizes after the working state was modified, double spend, unknown input, immature coinbase; header-first and header-batch delivery) and every valid losing-fork block is delivered: the best-chain fingerprint must be unchanged, nothing but an itself-valid header (and the fork block) may be remembered, and the valid sibling must then be processed exactly as by a twin that never saw the bad input.",
         "One corruption per failure stage (src/corrupt.rs); universe of 12 valid blocks, explored at header versions 1-3 and lifted by 12 blocks to version 5; every new state's history is also executed on one long-lived Chain object that is offered every probe between any two events, and must end in the same best-chain state.",
         "DESIGN.md §4 C06"),
 "C08": ("model_checking",
         "explicit-state exploration (DFS over directory snapshots, memoised) of the real on-disk prunable PMMRBackend through the chain's usage protocol against an unpruned reference MMR",
         "c08",
         "For a fixed-size and a variable-size element type, every history of up to 3 (quick) / 4 (thorough) units of work - optional block-by-block rewind to any earlier boundary not below the compaction cutoff, then one or two blocks of appends and removals of any <= 2 live leaves, then sync or discard - interleaved with up to two compactions at any boundary and a reopen, is executed on the real backend; after every step the view through PMMR::at must equal an unpruned reference: root, size, data and hash of every live leaf, None for spent leaves, a verifying Merkle proof for every live leaf, leaf_pos_iter, leaf_idx_iter(from) for every from, n_unpruned_leaves, PMMR::validate.",
         "Rewinds stay at or above the last compaction cutoff and precede the appends of a unit (the store's usage protocol). The snapshot parts open a fresh backend object per step (memoisation on directory contents is then sound) from the empty backend and from one holding spent leaves; the live parts keep ONE backend object along every path of 4 (quick) / 5 (thorough) ops over a narrower alphabet that includes units which do not rewind and read-only units, so that state kept in memory between units of work is explored. Chain-level compaction: C02 compaction part and C09 compaction scenarios.",
         "DESIGN.md §4 C08"),
 "C09": ("fault_enumeration",
         "exhaustive crash-point enumeration: every durable step of each scenario is a kill point (child process aborted by hook), judged by reopen + validate + reference unspent set + re-delivery vs uninterrupted twin",
         "c09",
         "For each scenario (plain extension, fork block, reorg with spends, header-by-header and header-batch reorg, compaction, and the extension / fork block / reorg again under version-5 headers; thorough adds compaction+block, first start, reorg after compaction, restarts, orphan cascade, body sync of a known header fork, and a second kill during every recovering restart) every crash point the interrupted operation executes (460 in quick) is exercised: a child process is killed at it, a second process reopens the directory and checks Chain::init, allowed head, validate(false), the unspent set against the reference replay, and equality with an uninterrupted twin after re-delivery. Genuine defects found on the unchanged tree are listed per (scenario, crash label, failure kind) in known_findings.json; any other failing crash point is a VIOLATION.",
         "Kill = process death (page cache survives). Crash points are the hook call sites (MANIFEST.hooks). Quick: 10 scenarios incl. extension (coinbase-only / spending), fork block and reorganisation under version-5 headers (460 crash points). Thorough: 17 scenarios (adds compaction+block, first start, reorg after compaction, restart of a consistent / compacted node, orphan cascade, bodies of a fork whose headers are known) and, for every crash point the node recovers from, a SECOND kill at every crash point of the restart (67 529 histories, about 25 min). About 1 900 known findings remain after four repairs (DESIGN 9.4): 1 701 of them are second-kill histories of one scenario under pre-version-3 headers; a change that fails at a crash history already listed with the same failure kind is masked.",
         "DESIGN.md §4 C09"),
 "C10": ("exploration",
         "bounded-exhaustive enumeration: value catalogue x protocol versions (round trip, byte identity, hash invariance vs a reference layout) and every canonical-form mutation operator at every site of a reference structure map (every tag byte x 256 values)",
         "c10",
         "A catalogue of every consensus and wire type (kernels of all variants and field corners, inputs in both encodings, outputs, bodies 0..3x1..3x1..3 (thorough 0..4), transactions, blocks, compact blocks, Proof/ProofOfWork/headers for every edge_bits 10..63 at proof sizes 8 and 42, Segment<T>, SegmentProof, BitmapSegment in all modes at the thresholds, Tip/CommitPos/BlockSums, all handshake and sync messages) is encoded at versions 1, 2, 3, local and db, parsed by a reference structure-map parser, decoded, compared field-wise, re-encoded (byte identity) and hashed (version independence, equality with a reference identity layout). At every site of every encoding: every tag byte x 256, every count +-1, every adjacent swap and duplication in sorted lists, every reserved/padding bit, out-of-range values; an accepted non-canonical encoding that re-encodes differently or must be refused is a violation.",
         "Trailing unread bytes after a lowered count are an outcome class, not a violation (top-level decoders read one object from the front of a stream). 12 genuine normalisation findings listed in known_findings.json.",
         "DESIGN.md §4 C10"),
 "C11": ("exploration",
         "bounded-exhaustive structure-aware mutation space over every network-reachable decoder, each case run in supervised worker processes with catch_unwind, allocation monitor, CPU watchdog and RLIMIT_AS",
         "c11",
         "Subjects: Codec::read on a socket, all 25 message body types, Segment<T> x4 and BitmapSegment followed by the stateless validators exactly as Desegmenter::add_*_segment calls them, MerkleProof::read / from_hex, Hand/Shake via read_message, API transaction decode; protocol versions 1, 2, 3, 1000. Space: all byte strings of length <= 2; for 396 honest seeds with a recorded structure map: every truncation, every byte x 256 values, every integer field x ~45 boundary values, splices at field boundaries. A case passes iff it yields a value or Err without panic, abort, hang (2 s CPU) or a single allocation above 16*len + 128 KiB; a dying case-runner is attributed to the case it published. Planted faults verify the monitors on every run.",
         "The additive allocation constant covers the format's documented 100 000-byte field cap. Four genuine panics/over-allocations found were repaired by fix: commits (known_findings.json 'fixed').",
         "DESIGN.md §4 C11"),
 "C12": ("exploration",
         "bounded-exhaustive enumeration: every sub-multiset x permutation x bracketing of a 9-transaction universe through aggregate / cut_through / deaggregate, every grouping and nonce set through compact-block hydration, against a multiset model over known openings",
         "c12",
         "Universe of 9 valid transactions with known openings (independent, chained so cut-through applies, multi-kernel, HeightLocked/NRD, zero offset, offset cancelling another's, a double spend), validated on a real chain. Every sub-multiset with repetition up to size 4 (quick) / 5 (thorough), every distinct permutation and every bracketing is aggregated on the real code; kernels must be the multiset union, the offset the scalar sum mod n computed in the harness, inputs/outputs the union minus exactly the matched pairs, all orders/groupings equal, conflicting operands refused. deaggregate for every subset that does not spend itself and every known sub-subset in every order must return the aggregate of the rest. Block::from_reward -> CompactBlock (drawn and 20 chosen nonces, short ids vs a reference SipHash) -> hydrate_from for every ordered set partition must give the identical block.",
         "Weight limits are not part of the property (validate with Weighting::NoLimit). Two genuine defects repaired by a fix: commit (see known_findings.json 'fixed').",
         "DESIGN.md §4 C12"),
 "C13": ("model_checking",
         "snapshot exploration of delivery histories of fork universes with threshold placements (one below / at / above) delivered as blocks and probes; rule model over the fork tree as oracle",
         "c13",
         "Two universes: (1) coinbase spends one below / at / above creation height + maturity on the same fork, on the other fork and with the coinbase below the fork point, forks with different output counts per height (the cutoff is read through the header maturity blocks back on that fork), height-locked kernels one below / at / above on both forks; (2) NRD enabled: duplicate-excess kernels r-1 / r / r+1 apart on one fork, on the other fork, and across rewinds. Every parent-before-child delivery order (both reorg directions, so the rules are evaluated in process_block and inside rewind_and_apply_fork); one-below blocks are probes at every state. process_block must accept iff the rule model accepts.",
         "AutomatedTesting constants (maturity 3, header version 4 from height 9). The maturity universe is explored at header versions 1-3, lifted by 12 blocks to version 5, and lifted with every header delivered before any body. Part `pool` decides the pool admission clauses: every interleaving of next main/fork body and header of a two-fork universe, every threshold transaction offered to a fresh TransactionPool (the engine of C14's c13-pool part). Every new state's history is also executed on one long-lived Chain object (live cross-check).",
         "DESIGN.md §4 C13"),
 "C07": ("exploration",
         "bounded-exhaustive enumeration of sizes/positions/leaves/corruptions on the real pmmr code vs an explicitly built reference forest",
         "c07",
         "Every node position and MMR size up to the bound (65 536 quick / 1 048 576 thorough nodes), every (size,pos) of family_branch, every leaf count up to 2 048 / 16 384 (push, root, peaks, validate, read-only views), every leaf of every MMR up to 96 / 320 leaves x every single corruption of element, position and path, all executed on the real code and compared with a forest built by definition with its own blake2b hashing. Exhaustive within these bounds; nothing sampled.",
         "Trusts blake2-rfc; positions >= 2^63 outside the domain; proof.mmr_size not mutated (excluded by the property).",
         "DESIGN.md §4 C07"), "C14": ("model_checking",
         "stateless exploration (level-by-level BFS with replay of operation prefixes on a fresh chain copy + fresh TransactionPool, memoised on chain fingerprint + ordered pool contents) with joint-validity invariants and a mined-block-accepted-by-twin oracle on every state",
         "c14",
         "Universe: chain b1..b8 with a fork f6..f11, ten transactions (independent, conflicting, 0-conf chained, aggregate of pooled ones, below minimum fee, over weight, bad sum, immature coinbase spend). Alphabet: submit(Ti, stem|fluff), connect a block carrying {} / {T1} / {T3} / {T1,T4} followed by the node's reconcile glue, mine the pool's own mineable set (real PoW, as mine_block.rs), fork block (reorg + reconcile_reorg_cache), fork header (header head moves alone); a capacity part (max_pool_size 2) reaches eviction through add_to_pool. Every state: txpool entries (and stempool on top) apply together on the head per a reference ledger, aggregate validates and Chain::validate_tx accepts it, every entry pays the minimum fee / is within weight / validates, T6 T7 T8 never present, the mineable set assembles into a block within the weight limit that a twin chain accepts. Part c13-pool: pool admission of coinbase spends and height-locked kernels one below / at / above their thresholds at every state of a two-fork universe including header-only states (property C13's pool clauses, keys c13:*).",
         "Part node-glue: a second node wired as Server::new wires it (PoolToChainAdapter, ChainToPoolAndNetAdapter over a Peers object without connections) runs every operation sequence of depth 3 (quick) / 4 (thorough) over submissions, blocks delivered with Options NONE / SYNC / MINE, fork blocks and mining in lock step with the engine's node (same verdicts, heads, txpool, stempool, reorg cache after every operation), and in every state the real mine_block::build_block (hook) must assemble the mineable set into a block the chain accepts. Depth 3 (quick) / 5 (thorough, capped by time while expanding depth 5; the cap is reported). One genuine defect recorded as known finding (maturity cutoff read through the header MMR when the header head is on another fork); two repaired.",
         "DESIGN.md §4 C14"),
 "C15": ("model_checking",
         "explicit-state exploration (DFS over directory snapshots) of the real TxHashSet / Extension / BitmapAccumulator through the extension seam with synthetic multi-chunk blocks, against a from-scratch accumulator and an independent chunk-MMR reference",
         "c15",
         "Histories up to depth 3 (quick) / 4 (thorough) over {apply a block with k new outputs (600, 1024 / 1, 600, 1023, 1025) and a spend selection (none, first/last of chunk 0, first of chunk 1, every other leaf of the oldest chunk, all of the last partial chunk, all of the oldest chunk, all of chunk 1) on the head or on any ancestor of the head (rewind across chunk boundaries and re-apply), a rolled-back unit, reopen}: after every step and after reopening, the committed bitmap root must equal an accumulator initialised from scratch over the reference unspent set and an independently hashed chunk MMR, and the accumulator's bit set must equal the reference unspent set. Output counts span up to 4 chunks.",
         "Explored from the empty state and from a state that already holds one block of 1025 outputs (two chunks). The seam replicates pipe::rewind_and_apply_fork minus the validations synthetic blocks cannot pass (Testnet limits so that 1000-output blocks can be read back). The 'tampered output_root is rejected' clause is exercised by C06 (late:output_root-flip probe at every state).",
         "DESIGN.md §4 C15"),
 "C16": ("model_checking",
         "bounded-exhaustive enumeration of prune/compaction states x segment heights x indices x every single corruption on the real PMMRBackend (segments); stateless exploration (replay DFS, memoised) of every arrival order of the segment multiset on a receiving Chain's Desegmenter with the sync loop interleaved, twin differential (end-to-end); archive path with file corruptions",
         "c16",
         "Segments: every assignment of five leaf histories (unspent, spent+compacted, compacted by a second compaction, spent uncompacted, spent after the archive point) to n <= 5 (quick) / 7 (thorough) leaves plus structured families up to 24 / 64 leaves on a real on-disk prunable backend; for heights 0..4 and every index Segment::from_pmmr must produce a segment that validate / validate_with accept against an independently hashed reference, and every single corruption of a part the root depends on (leaf data, positions, hashes, proof, identifier, omission of an unspent leaf, hidden leaves, wrong merge side) must be refused; bitmap segments likewise. End-to-end: source chains (no spends, spends before/after/both sides of the archive header, compacted before serving) served to a header-only receiver with small segment heights (hook H7); every arrival order of the pending honest segments with duplicates and the sync loop's own calls interleaved, every corrupted copy offered at every honest state: the final head, roots, unspent set and validate(false) equal a twin that processed every block, and a tainted history never finalises other roots. Archive path txhashset_read -> txhashset_write with per-file corruptions.",
         "The compacted source chain also spends the genesis output (leaves 0 and 1 compacted away); corruptions include a fully spent segment that claims a higher all-spent ancestor than the bitmap allows. Nodes serve segment heights >= 7; a height-0 segment next to a spent sibling cannot be produced (counted, not judged). Follow-up exploration of accepted corrupted copies is limited (counted as not explored).",
         "DESIGN.md §4 C16"),
 "C17": ("model_checking",
         "controlled-scheduler (CHESS-style) exploration of the real Chain with real OS threads: every schedule up to a preemption bound, lock state mirrored for deadlock detection",
         "c17",
         "Under --cfg grin_verif every util::RwLock acquisition/release, the LMDB writer lock and the store's polling loops report to a scheduler owned by the harness: exactly one registered thread runs at a time, a thread whose request cannot be granted is disabled (a parked writer blocks new readers, as in parking_lot), 'no thread enabled' = deadlock. Every schedule with <= 1 preemption (quick; <= 2 thorough) of harnesses of 2-3 threads x 1-3 operations chosen to collide (competing fork blocks + reader, header-first + block + reader, block + validate_tx + get_unspent, miner template + block; thorough adds reorg + readers, validate + header, compact + block + reader, segmenter + block) runs on a fresh copy of a prepared chain. Oracles: no deadlock/livelock/panic, operations return only what a correct node may return, a reported head names a stored block, observed total difficulty never decreases, the final best-chain state is one a sequential order of the operations produces, validate(false) passes.",
         "Scheduling points are lock operations (data outside these locks is invisible to the scheduler); preemption bound 1/2; databases stay below the resize threshold here (the resize waiter is explored by C18's concurrent part); header-chain memory is excluded from the serializability comparison (process_block commits its header step separately by design). Quick: harnesses a b c d (forks/readers/pool/miner against block writers), r1 r2 (all 14 public read APIs against a block / header writer), e2 (Chain::compact against a block on a 90-block chain); thorough adds a2 g e f and bound 2 for a-d. Harness c2: a block carrying an NRD kernel vs validate_tx of an NRD transaction of the same excess (the path that takes both write locks) vs a reader, on C13's NRD universe. Harness s: two API threads whose database reads end together, with the accesses to the atomics of the store's resize gate as scheduling points (hook b9a426d06), two preemptions; afterwards the node keeps writing until the database map must grow (30 s watchdog).",
         "DESIGN.md §4 C17 + Appendix A"),
 "C18": ("model_checking",
         "explicit-state exploration of batch operation sequences on the real LMDB Store against a nested-transaction map model; exhaustive growth sequences forcing map resizes; crash-point enumeration around commit",
         "c18",
         "Every sequence up to depth 7 (quick) / 9 (thorough) over {batch, child (two nesting levels), put x6 over two key spaces, delete x3, commit, drop, reopen} runs on a real Store; after every operation every key is read inside the innermost open level (get_ser, exists, iter) and through the Store (outside view) and compared with a stack-of-overlays model: writes visible inside and in children, invisible outside until the outermost commit, all at once then, dropped levels leave no trace, a child's writes take effect only if every enclosing level commits, durable across reopen. Growth: every well-formed sequence of {48 KiB write, pair write, open iterator, drain iterator, reopen} on a store pre-filled to 65 % of its 1 MiB map (one or two automatic resizes): no operation fails, every committed value reads back byte-exact, iterators see their snapshot. Crash: a kill at every crash point around the commit of a flat and a nested two-key-space batch leaves all or nothing, all once commit returned.",
         "Part `concurrent`: under the controlled scheduler (src/sched.rs; the resize waiter thread is a scheduled participant, hook ba08ede92) every schedule up to 1 (quick) / 2 (thorough) preemptions of two harnesses on a store filled just past the resize threshold: {iterator holder with nested reads; writer needing the map enlarged; reader} and {view holder that commits a small batch before closing its view; writer larger than the old map's headroom}: no deadlock/livelock, every operation Ok, iterators see a batch entirely or not at all, nothing committed is lost. Sequential growth batches stay within the 10 % headroom the resize rule guarantees; a read view held by the writing thread itself while it makes a LARGE write is outside the property.",
         "DESIGN.md §4 C18"),
 "C19": ("exploration",
         "exhaustive enumeration of environment decisions: message sequences x protocol versions x every split point of the TCP byte stream (FIONREAD-synchronised fragments) read by the real Codec; per-type length limits; handshake script",
         "c19",
         "The real Codec reads from a loopback TcpStream; the writer delivers the next fragment only when the reader has consumed the previous one (no sleeps). Alphabet of 718 items (all message types with real content, Headers with 0..65 items, attachments of 0..100 000 bytes, every unknown type byte x three body lengths) x versions {1,2,3,1000}: every single item and the stated groups of pairs (and triples in thorough) at every single split point, and every pair of split points for streams <= 96 bytes. Received messages must equal the sent sequence (header batches of <= 32 with correct 'remaining', attachment chunks, Unknown skipped without desync). Every type x boundary and over-limit announced lengths, wrong magic, header counts inconsistent with length: refused with 0 body bytes consumed and no allocation of the announced size. Handshake: negotiated version = min for 8 remote versions, genesis mismatch, self-connect, wrong first message.",
         "Delays beyond the codec's own I/O timeouts are outside the property. Per-type limit = 4 x nominal size. Handshake part: versions x genesis x self-connection, and the Hand/Shake frame followed by the peer's next message in the same byte stream (coalesced and cut at 5 points): the codec must then read that message.",
         "DESIGN.md §4 C19"),
 "C20": ("exploration",
         "bounded-exhaustive product of seeds x derivation paths x amounts x switch modes x builder generations; blinding arithmetic over all small signed multisets and orders against scalar arithmetic mod n; builder multisets",
         "c20",
         "derive_key/commit determinism (twice and from a re-created keychain) and commit = amount*H + key*G for 3 seeds x 781 paths (depth 0..4) x 6 amounts x 2 switch modes (complete in thorough, counted pairwise cover in quick); proof create/verify/rewind with own seed exact, other seeds None, view keys; all signed multisets of size <= 3 over {zero, 4 keys} in every order through blind_sum/add/split vs 256-bit scalar arithmetic written in the harness; all balancing input/output/fee multisets through the three builder functions; reward::output for 3 fees x paths x generations.",
         "LegacyProofBuilder recovers depth/switch only for depth 3 + Regular (message layout); view keys cannot pass hardened steps; child view keys are built both by public derivation and by ViewKey::create on the privately derived key and must answer alike. One known finding (view key + Regular switch unimplemented), two defects repaired.",
         "DESIGN.md §4 C20"),
}

NOT_YET = "engine not built yet in this session (see DESIGN.md §7b build order); not claimed until its check exists"

def main():
    hooks_commits = []
    try:
        out = subprocess.run(["git", "-C", "/repo", "log", "--format=%H %s"], capture_output=True, text=True).stdout
        for l in out.splitlines():
            h, s = l.split(" ", 1)
            if s.startswith("verif-hook:"):
                hooks_commits.append(h)
    except Exception:
        pass
    checks = []
    for pid in ALL:
        if pid not in CHECKS:
            continue
        cat, tech, eng, text, note, ref = CHECKS[pid]
        checks.append({
            "property_id": pid,
            "quick_cmd": "./check %s quick" % pid,
            "thorough_cmd": "./check %s thorough" % pid,
            "evidence_file": "/verif/evidence/%s.json" % pid,
            "replay_cmd_template": "./check %s --replay {path}" % pid,
            "engine": eng,
            "level_claimed": {"category": cat, "text": text, "design_ref": ref},
            "level_note": note,
            "technique": tech,
        })
    m = {
        "version": 1,
        "setup_cmd": "cd /verif/harness && CARGO_NET_OFFLINE=true cargo build --release --offline",
        "hooks": {
            "guard": "grin_verif",
            "enable": "RUSTFLAGS=--cfg grin_verif via /verif/harness/.cargo/config.toml ([build] rustflags); the harness has path dependencies on /repo/{core,chain,store,pool,p2p,keychain,util,servers}, so every ./check rebuilds them from /repo's working tree with the hooks compiled in",
            "baseline_off_cmd": "cd /repo && cargo test --workspace --no-fail-fast --offline",
            "source_commits": hooks_commits,
            "add_only": True,
        },
        "engines": [
            {"name": "gv", "path": "/verif/harness", "serves_properties": sorted(CHECKS.keys()),
             "kind_free_text": "one Rust binary; per property an exhaustive bounded explorer that drives the real grin code (snapshot BFS / replay DFS over operation histories, crash-point enumeration, controlled-scheduler schedule enumeration, bounded-exhaustive input spaces) and judges every execution with a reference model written in the harness"},
        ],
        "checks": checks,
        "not_applicable": [{"property_id": p, "reason": NOT_YET} for p in ALL if p not in CHECKS],
        "notes": "All checks explore the implementation itself; reference models are oracles only. Exit codes: 0 held, 1 VIOLATION line, 2 machinery failure. Known findings: /verif/known_findings.json.",
    }
    json.dump(m, open("/verif/MANIFEST.json", "w"), indent=1)
    print("MANIFEST.json written: %d checks, %d not_applicable" % (len(checks), len(m["not_applicable"])))

if __name__ == "__main__":
    main()
