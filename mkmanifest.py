#!/usr/bin/env python3
"""Generates MANIFEST.json from the table below (kept in one place so it stays valid)."""
import json, subprocess

ALL = ["C%02d" % i for i in range(1, 21)]

# property -> (category, technique, engine, text, note, design_ref)
CHECKS = {
 "C07": ("exploration",
         "bounded-exhaustive enumeration of sizes/positions/leaves/corruptions on the real pmmr code vs an explicitly built reference forest",
         "c07",
         "Every node position and MMR size up to the bound (65 536 quick / 1 048 576 thorough nodes), every (size,pos) of family_branch, every leaf count up to 2 048 / 16 384 (push, root, peaks, validate, read-only views), every leaf of every MMR up to 96 / 320 leaves x every single corruption of element, position and path, all executed on the real code and compared with a forest built by definition with its own blake2b hashing. Exhaustive within these bounds; nothing sampled.",
         "Trusts blake2-rfc; positions >= 2^63 outside the domain; proof.mmr_size not mutated (excluded by the property).",
         "DESIGN.md §4 C07"),
}

NOT_YET = "engine not built yet in this session (see DESIGN.md §7b build order); not claimed until its check exists"

def main():
    hooks_commits = []
    try:
        out = subprocess.run(["git", "-C", "/repo", "log", "--format=%H %s"], capture_output=True, text=True).stdout
        for l in out.splitlines():
            h, s = l.split(" ", 1)
            if s.startswith("verif-hook:"):
                hooks_commits.append(h)
    except Exception:
        pass
    checks = []
    for pid in ALL:
        if pid not in CHECKS:
            continue
        cat, tech, eng, text, note, ref = CHECKS[pid]
        checks.append({
            "property_id": pid,
            "quick_cmd": "./check %s quick" % pid,
            "thorough_cmd": "./check %s thorough" % pid,
            "evidence_file": "/verif/evidence/%s.json" % pid,
            "replay_cmd_template": "./check %s --replay {path}" % pid,
            "engine": eng,
            "level_claimed": {"category": cat, "text": text, "design_ref": ref},
            "level_note": note,
            "technique": tech,
        })
    m = {
        "version": 1,
        "setup_cmd": "cd /verif/harness && CARGO_NET_OFFLINE=true cargo build --release --offline",
        "hooks": {
            "guard": "grin_verif",
            "enable": "RUSTFLAGS=--cfg grin_verif via /verif/harness/.cargo/config.toml ([build] rustflags); the harness has path dependencies on /repo/{core,chain,store,pool,p2p,keychain,util}, so every ./check rebuilds them from /repo's working tree with the hooks compiled in",
            "baseline_off_cmd": "cd /repo && cargo test --workspace --no-fail-fast --offline",
            "source_commits": hooks_commits,
            "add_only": True,
        },
        "engines": [
            {"name": "gv", "path": "/verif/harness", "serves_properties": sorted(CHECKS.keys()),
             "kind_free_text": "one Rust binary; per property an exhaustive bounded explorer that drives the real grin code (snapshot BFS / replay DFS over operation histories, crash-point enumeration, controlled-scheduler schedule enumeration, bounded-exhaustive input spaces) and judges every execution with a reference model written in the harness"},
        ],
        "checks": checks,
        "not_applicable": [{"property_id": p, "reason": NOT_YET} for p in ALL if p not in CHECKS],
        "notes": "All checks explore the implementation itself; reference models are oracles only. Exit codes: 0 held, 1 VIOLATION line, 2 machinery failure. Known findings: /verif/known_findings.json.",
    }
    json.dump(m, open("/verif/MANIFEST.json", "w"), indent=1)
    print("MANIFEST.json written: %d checks, %d not_applicable" % (len(checks), len(m["not_applicable"])))

if __name__ == "__main__":
    main()
