#!/usr/bin/env python3
"""Generates MANIFEST.json from the table below (kept in one place so it stays valid)."""
import json, subprocess

ALL = ["C%02d" % i for i in range(1, 21)]

# property -> (category, technique, engine, text, note, design_ref)
CHECKS = {
 "C02": ("model_checking",
         "explicit-state exploration of delivery histories on the real Chain (snapshot DFS with fingerprint memoisation, invalid blocks as probes at every state) against a reference ledger",
         "c02",
         "Every parent-before-child delivery history of fork-tree universes (same coinbase spent on both forks, output created and spent on a fork that loses then wins, the same commitment on both forks, re-created commitments, reorgs in both directions) is executed on the real Chain; at every reached state every reference-invalid block (double spend across blocks and inside one block, never-created and fork-foreign inputs, duplicate of an unspent commitment) is delivered as a probe. After every event process_block's verdict must equal the reference ledger's, and get_unspent of every commitment of the universe (position and height), unspent_outputs_by_pmmr_index and validate_inputs must equal the replay of the winning chain; closing and reopening must reproduce the state. Exhaustive over the stated universes and orders.",
         "Reference ledger written from the property text (src/ledger.rs); orphan orders are C03, compaction is C08; universes up to 18 blocks.",
         "DESIGN.md §4 C02"),
 "C03": ("model_checking",
         "stateless exploration (replay DFS with memoisation) of every delivery order over every small fork tree x difficulty vector on the real Chain, fork-choice model as oracle",
         "c03",
         "All fork trees up to 3 (quick) / 4 (thorough) blocks up to isomorphism with every difficulty vector from the alphabet (SKIP_POW universes as in the repo's fork tests) and real-PoW fork universes; every order of process_block / process_block_header / duplicate / sync_block_headers events including children before parents. After every event: head is an accepted block with accepted ancestors, moved only to strictly more work, has the greatest work among accepted blocks and equals the reference fork choice, reported Next/Fork/Reorg status and fork point equal the model's, verdict and accepted set equal the orphan model's; at quiescence with a unique maximum the best-chain state equals a twin fed the winning path only and is identical over all orders.",
         "Orphan pool within capacity; trees <= 4 blocks; difficulty alphabets {1,3} / {1,2,4}.",
         "DESIGN.md §4 C03"),
 "C06": ("model_checking",
         "snapshot exploration of delivery histories with a closed failure-stage catalogue delivered as probes at every reached state; before/after fingerprint and twin differential oracles",
         "c06",
         "At every state of every delivery history of a two-fork universe with spends and reorgs in both directions, every applicable corrupted block of a closed catalogue (PoW, header rules, kernel signature, range proof, kernel offset, coinbase flags, wrong roots / MMR sizes after the working state was modified, double spend, unknown input, immature coinbase; header-first and header-batch delivery) and every valid losing-fork block is delivered: the best-chain fingerprint must be unchanged, nothing but an itself-valid header (and the fork block) may be remembered, and the valid sibling must then be processed exactly as by a twin that never saw the bad input.",
         "One corruption per failure stage (src/corrupt.rs); universe of 12 valid blocks.",
         "DESIGN.md §4 C06"),
 "C09": ("fault_enumeration",
         "exhaustive crash-point enumeration: every durable step of each scenario is a kill point (child process aborted by hook), judged by reopen + validate + reference unspent set + re-delivery vs uninterrupted twin",
         "c09",
         "For each scenario (plain extension, fork block, reorg with spends, header-by-header and header-batch reorg, compaction; thorough adds compaction+block, first start, reorg after compaction) every crash point the interrupted operation executes (74/4/74/22/18/42 in quick, 567 in thorough) is exercised: a child process is killed at it, a second process reopens the directory and checks Chain::init, allowed head, validate(false), the unspent set against the reference replay, and equality with an uninterrupted twin after re-delivery. Genuine defects found on the unchanged tree are listed per (scenario, crash label, failure kind) in known_findings.json; any other failing crash point is a VIOLATION.",
         "Kill = process death (page cache survives). Crash points are the hook call sites (MANIFEST.hooks). 270 known findings share three root causes (DESIGN §7); a change that fails at a crash point already listed with the same failure kind is masked.",
         "DESIGN.md §4 C09"),
 "C07": ("exploration",
         "bounded-exhaustive enumeration of sizes/positions/leaves/corruptions on the real pmmr code vs an explicitly built reference forest",
         "c07",
         "Every node position and MMR size up to the bound (65 536 quick / 1 048 576 thorough nodes), every (size,pos) of family_branch, every leaf count up to 2 048 / 16 384 (push, root, peaks, validate, read-only views), every leaf of every MMR up to 96 / 320 leaves x every single corruption of element, position and path, all executed on the real code and compared with a forest built by definition with its own blake2b hashing. Exhaustive within these bounds; nothing sampled.",
         "Trusts blake2-rfc; positions >= 2^63 outside the domain; proof.mmr_size not mutated (excluded by the property).",
         "DESIGN.md §4 C07"),
}

NOT_YET = "engine not built yet in this session (see DESIGN.md §7b build order); not claimed until its check exists"

def main():
    hooks_commits = []
    try:
        out = subprocess.run(["git", "-C", "/repo", "log", "--format=%H %s"], capture_output=True, text=True).stdout
        for l in out.splitlines():
            h, s = l.split(" ", 1)
            if s.startswith("verif-hook:"):
                hooks_commits.append(h)
    except Exception:
        pass
    checks = []
    for pid in ALL:
        if pid not in CHECKS:
            continue
        cat, tech, eng, text, note, ref = CHECKS[pid]
        checks.append({
            "property_id": pid,
            "quick_cmd": "./check %s quick" % pid,
            "thorough_cmd": "./check %s thorough" % pid,
            "evidence_file": "/verif/evidence/%s.json" % pid,
            "replay_cmd_template": "./check %s --replay {path}" % pid,
            "engine": eng,
            "level_claimed": {"category": cat, "text": text, "design_ref": ref},
            "level_note": note,
            "technique": tech,
        })
    m = {
        "version": 1,
        "setup_cmd": "cd /verif/harness && CARGO_NET_OFFLINE=true cargo build --release --offline",
        "hooks": {
            "guard": "grin_verif",
            "enable": "RUSTFLAGS=--cfg grin_verif via /verif/harness/.cargo/config.toml ([build] rustflags); the harness has path dependencies on /repo/{core,chain,store,pool,p2p,keychain,util}, so every ./check rebuilds them from /repo's working tree with the hooks compiled in",
            "baseline_off_cmd": "cd /repo && cargo test --workspace --no-fail-fast --offline",
            "source_commits": hooks_commits,
            "add_only": True,
        },
        "engines": [
            {"name": "gv", "path": "/verif/harness", "serves_properties": sorted(CHECKS.keys()),
             "kind_free_text": "one Rust binary; per property an exhaustive bounded explorer that drives the real grin code (snapshot BFS / replay DFS over operation histories, crash-point enumeration, controlled-scheduler schedule enumeration, bounded-exhaustive input spaces) and judges every execution with a reference model written in the harness"},
        ],
        "checks": checks,
        "not_applicable": [{"property_id": p, "reason": NOT_YET} for p in ALL if p not in CHECKS],
        "notes": "All checks explore the implementation itself; reference models are oracles only. Exit codes: 0 held, 1 VIOLATION line, 2 machinery failure. Known findings: /verif/known_findings.json.",
    }
    json.dump(m, open("/verif/MANIFEST.json", "w"), indent=1)
    print("MANIFEST.json written: %d checks, %d not_applicable" % (len(checks), len(m["not_applicable"])))

if __name__ == "__main__":
    main()
