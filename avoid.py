import json,glob,sys,os
p=sys.argv[1].lower()
out=[]
for d in sorted(glob.glob('/verif/seeded/%s?'%p)):
    m=json.load(open(d+'/meta.json'))
    out.append('(%s) %s'%(os.path.basename(d)[-1], (m.get('summary') or '')[:260].replace('\n',' ')))
print(' ;; '.join(out))
