#!/usr/bin/env python3
"""Maintainer tool (never run by a check): import the violations of the last run of a property
(replays/<prop>/*.json) into known_findings.json after they were judged genuine.
usage: kf_import.py C09 'root-cause text'"""
import json, glob, sys
prop, why = sys.argv[1], sys.argv[2]
kf = json.load(open('/verif/known_findings.json'))
have = {(f['property'], f['key']) for f in kf['findings']}
n = 0
for p in sorted(glob.glob('/verif/replays/%s/*.json' % prop)):
    v = json.load(open(p))
    if (prop, v['key']) in have: continue
    kf['findings'].append({'property': prop, 'key': v['key'], 'what': why + ' :: ' + v['what'][:300]})
    have.add((prop, v['key'])); n += 1
json.dump(kf, open('/verif/known_findings.json', 'w'), indent=1)
print('added', n, 'total', len(kf['findings']))
