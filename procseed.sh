#!/bin/bash
# procseed.sh <seedname e.g. c07d> <crate> [slot]: confirm an agent's seeded change (demo with/without, suite with) and
# run the quick check of its property against it in a patched scratch copy (mutws slot). Prints a summary; the
# seed is kept with keep_seed.sh afterwards.
n=$1; crate=$2; slot=${3:-1}
P=C$(echo $n | cut -c2-3)
O=/tmp/seed_${n}_out
# the agent's patch must be taken from the worktree (source files only)
git -C /tmp/seed_$n diff > $O/patch.diff
/verif/confirm_seed.sh $n $crate > $O/confirm.out 2>&1
MUTWS=/tmp/mutws$slot /verif/mutws.sh $O/patch.diff $P quick > $O/check_quick.log 2>&1
echo "== $n: $(cat $O/confirm.json)"
echo "   violations: $(grep -c '^VIOLATION' $O/check_quick.log)  machinery: $(grep -c MACHINERY $O/check_quick.log)"
grep -m3 "violation:" $O/check_quick.log
tail -2 $O/check_quick.log
