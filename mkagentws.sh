#!/bin/bash
# mkagentws.sh <name>: private copy of the harness for a builder sub-agent (own target dir)
set -e
n=$1
rm -rf /tmp/ag_$n
mkdir -p /tmp/ag_$n
cp -r /verif/harness /tmp/ag_$n/harness
sed -i "s#/verif/target#/tmp/ag_$n/target#" /tmp/ag_$n/harness/.cargo/config.toml
echo /tmp/ag_$n/harness
