#!/bin/bash
# seedmatrix.sh [tier]: runs every kept seeded change against the quick check of its property (in the
# scratch worktree of mutws.sh) and writes /verif/seeded/MATRIX.tsv: seed, property, exit class, first violation key
T=${1:-quick}
OUT=/verif/seeded/MATRIX.tsv
: > $OUT.tmp
for d in /verif/seeded/c*/; do
  n=$(basename $d); P=C$(echo $n | cut -c2-3)
  log=/tmp/matrix_$n.log
  /verif/mutws.sh $d/patch.diff $P $T > $log 2>&1
  nv=$(grep -c "^VIOLATION" $log)
  key=$(grep -m1 "violation:" $log | sed 's/^ *violation: //' | cut -d' ' -f1)
  if grep -q "MACHINERY" $log; then cls=MACHINERY; elif [ "$nv" -gt 0 ]; then cls=CAUGHT; else cls=silent; fi
  printf "%s\t%s\t%s\t%s\t%s\n" "$n" "$P" "$cls" "$nv" "$key" >> $OUT.tmp
done
mv $OUT.tmp $OUT
